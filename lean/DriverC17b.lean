/-
  Line-protocol driver for the quantum-network part of property C17: runs the executable model
  QV.Model.Networks on Gaussian-integer data.  `lake env lean --run DriverC17b.lean`.
-/
import QV.Core.GI
import QV.Model.Superop
import QV.Model.Networks
import QV.Model.Dilation
import QV.Model.Dispatch
open QV QV.Superop QV.Networks

structure Rd where
  toks : Array String
  pos : Nat := 0

abbrev P := StateM Rd

def nextTok : P String := do
  let s ← get
  set { s with pos := s.pos + 1 }
  pure (s.toks.getD s.pos "")

def nextInt : P Int := do
  let t ← nextTok
  pure (t.toInt?.getD 0)

def nextNat : P Nat := do
  let t ← nextInt
  pure t.toNat

def nextNats (k : Nat) : P (List Nat) := do
  let mut out := []
  for _ in [0:k] do
    out := (← nextNat) :: out
  pure out.reverse

def nextGI : P GI := do
  let a ← nextInt
  let b ← nextInt
  pure ⟨a, b⟩

def nextGIs (k : Nat) : P (Array GI) := do
  let mut out := Array.mkEmpty k
  for _ in [0:k] do
    out := out.push (← nextGI)
  pure out

def showGIs (a : Array GI) : String :=
  " ".intercalate (a.toList.map GI.toStr)

def shapeOf (N : Net GI) : List Nat := if N.pure then N.part else sq N.part

/-- evaluate the tensor once into an array (the interpreter would otherwise recompute). -/
def freezeTen (shape : List Nat) (f : List Nat → GI) : Array GI × (List Nat → GI) :=
  let arr : Array GI := Array.ofFn (n := prodL shape) fun i => f (unflat shape i.val)
  (arr, fun t => arr.getD (flat shape t) 0)

def freeze (N : Net GI) : Net GI :=
  { N with ten := (freezeTen (shapeOf N) N.ten).2 }

/-- the same stored data seen with another partition (numpy reshape). -/
def reshapeNet (N : Net GI) (part : List Nat) (sysIn : List Bool) : Net GI :=
  let old := shapeOf N
  let new := if N.pure then part else sq part
  { N with part := part, sysIn := sysIn, ten := fun t => N.ten (unflat old (flat new t)) }

def nextSys (n : Nat) : P (Option (List Bool)) := do
  let hs ← nextNat
  if hs = 0 then pure none else
    let s ← nextNats n
    pure (some (s.map (· != 0)))

def matOfArr (m : Nat) (a : Array GI) : Mat GI := fun r c => if r < m ∧ c < m then a.getD (r * m + c) 0 else 0

/-- a network given by its construction route. -/
def nextNet : P (Net GI) := do
  let route ← nextTok
  match route with
  | "N" =>
    let isP := (← nextNat) != 0
    let n ← nextNat; let part ← nextNats n; let sys ← nextSys n
    let shape := if isP then part else sq part
    let a ← nextGIs (prodL shape)
    pure (freeze (mkNet (fun k => a.getD k 0) part sys isP))
  | "F" =>
    let isP := (← nextNat) != 0
    let n ← nextNat; let part ← nextNats n; let sys ← nextSys n
    if isP then
      let a ← nextGIs (prodL part)
      pure (freeze (fromOperatorPure (fun k => a.getD k 0) part sys))
    else
      let m := prodL part
      let a ← nextGIs (m * m)
      pure (freeze (fromOperator (matOfArr m a) part sys))
  | "C" =>
    let isP := (← nextNat) != 0
    let inv := (← nextNat) != 0
    let n ← nextNat; let part ← nextNats n
    if isP then
      let a ← nextGIs (prodL part)
      pure (freeze (combFromOperatorPure (fun k => a.getD k 0) part inv))
    else
      let m := prodL part
      let a ← nextGIs (m * m)
      pure (freeze (combFromOperator (matOfArr m a) part inv))
  | "H" =>
    -- QuantumChannel.from_operator(operator, partition, inverse, pure): the class constructor
    -- completes a one-leg partition before `inverse` is applied
    let isP := (← nextNat) != 0
    let inv := (← nextNat) != 0
    let n ← nextNat; let part ← nextNats n
    let N0 ← (if isP then do
        let a ← nextGIs (prodL part)
        pure (freeze (fromOperatorPure (fun k => a.getD k 0) part none))
      else do
        let m := prodL part
        let a ← nextGIs (m * m)
        pure (freeze (fromOperator (matOfArr m a) part none)))
    let cp := channelPartition part none
    let N1 := freeze (reshapeNet N0 cp (combSysIn cp.length))
    pure (if inv then freeze (inverseNet N1) else N1)
  | "Q" =>
    -- QuantumChannel(tensor, partition, system_input, pure)
    let isP := (← nextNat) != 0
    let n ← nextNat; let part ← nextNats n; let sys ← nextSys n
    let cp := channelPartition part sys
    let shape := if isP then cp else sq cp
    let a ← nextGIs (prodL shape)
    pure (freeze (mkNet (fun k => a.getD k 0) cp (some (combSysIn cp.length)) isP))
  | "B" =>
    -- QuantumComb(tensor, partition, pure=…)
    let isP := (← nextNat) != 0
    let n ← nextNat; let part ← nextNats n; let _ ← nextSys n
    let shape := if isP then part else sq part
    let a ← nextGIs (prodL shape)
    pure (freeze (mkNet (fun k => a.getD k 0) part (some (combSysIn n)) isP))
  | "S" =>
    -- QuantumChannel.from_operator(ρ): the state network
    let d ← nextNat
    let a ← nextGIs (d * d)
    pure (freeze (stateNet (matOfArr d a) d))
  | "I" =>
    let d ← nextNat
    pure (freeze (identityChannel d))
  | "R" =>
    let d ← nextNat
    pure (freeze (traceOperation d))
  | _ => pure { part := [], sysIn := [], pure := false, ten := fun _ => 0 }

def bools (l : List Bool) : String := " ".intercalate (l.map (fun b => if b then "1" else "0"))
def nats (l : List Nat) : String := " ".intercalate (l.map toString)

/-- `P part ; S system_input ; U pure ; T stored tensor ; F full tensor ; M matrix`. -/
def dump (N : Net GI) : String :=
  let (ta, _) := freezeTen (shapeOf N) N.ten
  let (fa, ff) := freezeTen (sq N.part) (fullTen GI.conj N)
  let Nf : Net GI := { N with pure := false, ten := ff }
  let m := prodL N.part
  let ma : Array GI := Array.ofFn (n := m * m) fun i => matrix GI.conj Nf (i.val / m) (i.val % m)
  s!"P {nats N.part} ; S {bools N.sysIn} ; U {if N.pure then 1 else 0} ; T {showGIs ta} ; F {showGIs fa} ; M {showGIs ma}"

/-! dispatch tables -/

def repOf : String → QV.Dispatch.Rep
  | "op" => .op | "kraus" => .kraus | "choi" => .choi | "liouville" => .liouville
  | "pauli" => .pauli | "chi" => .chi | _ => .stinespring

def argOf (s : String) : QV.Dispatch.Arg :=
  if s = "C" then .caller else if s = "D" then .dflt else .lit ((s.drop 1).toNat?.getD 99)

def nextArgs : P QV.Dispatch.Args := do
  let a ← nextTok; let b ← nextTok; let c ← nextTok; let d ← nextTok; let e ← nextTok; let f ← nextTok
  pure ⟨argOf a, argOf b, argOf c, argOf d, argOf e, argOf f⟩

def nextRow : P QV.Dispatch.Row := do
  let name ← nextTok
  let src := repOf (← nextTok); let dst := repOf (← nextTok)
  let k ← nextNat
  let mut steps : List QV.Dispatch.Step := []
  for _ in [0:k] do
    let callee ← nextTok
    let s := repOf (← nextTok); let t := repOf (← nextTok)
    let data := (← nextNat) != 0
    let args ← nextArgs
    steps := ⟨callee, s, t, data, args⟩ :: steps
  pure ⟨name, src, dst, steps.reverse⟩

def handle : P String := do
  let cmd ← nextTok
  match cmd with
  | "NET" =>
    let N ← nextNet
    pure (dump N)
  | "APPLY" =>
    let N ← nextNet
    let din := N.part.getD 0 1
    let dout := N.part.getD 1 1
    let a ← nextGIs (din * din)
    let ρ := matOfArr din a
    let out := chanApply GI.conj N ρ
    pure (showGIs (Array.ofFn (n := dout * dout) fun i => out (i.val / dout) (i.val % dout)))
  | "LINK" =>
    let k ← nextNat
    let mut ops : List (List Nat × Net GI) := []
    for _ in [0:k] do
      let nl ← nextNat
      let labels ← nextNats nl
      let N ← nextNet
      -- link_product uses the full tensors: freeze them once
      let Nf : Net GI := freeze (fullNet GI.conj N)
      ops := (labels, { Nf with sysIn := N.sysIn }) :: ops
    let no ← nextNat
    let out ← nextNats no
    pure (dump (linkProduct GI.conj ops.reverse out))
  | "MATMUL" =>
    let A ← nextNet
    let B ← nextNet
    let Af : Net GI := freeze (fullNet GI.conj A)
    let Bf : Net GI := freeze (fullNet GI.conj B)
    match matmul GI.conj Af Bf with
    | none => pure "none"
    | some N => pure (dump N)
  | "PRED" =>
    -- is_hermitian, is_causal (even number of legs), is_unital (two legs)
    let N ← nextNet
    let Nf : Net GI := { freeze (fullNet GI.conj N) with pure := N.pure }
    -- predicates are evaluated on the frozen full tensor; `pure` only matters for is_hermitian
    let Nfull : Net GI := { Nf with pure := false }
    let h := N.pure || isHermitian GI.conj Nfull
    let c := if N.part.length % 2 == 0 then (if isCausal GI.conj Nfull then "1" else "0") else "-"
    let u := if N.part.length == 2 then (if isUnital GI.conj Nfull then "1" else "0") else "-"
    pure s!"{if h then 1 else 0} {c} {u}"
  | "ADD" =>
    let A ← nextNet
    let B ← nextNet
    pure (dump (addNet GI.conj A B))
  | "CONJ" =>
    let A ← nextNet
    pure (dump (conjNet GI.conj A))
  | "ASTINE" =>
    -- Tr_E [ S (ρ ⊗ |v⟩⟨v|) S† ]
    let d ← nextNat; let e ← nextNat
    let sa ← nextGIs (d * e * d * e)
    let va ← nextGIs e
    let ra ← nextGIs (d * d)
    let out := applyStinespring GI.conj d e (matOfArr (d * e) sa) (fun k => va.getD k 0) (matOfArr d ra)
    pure (showGIs (Array.ofFn (n := d * d) fun i => out (i.val / d) (i.val % d)))
  | "DTABLE" =>
    pure (" | ".intercalate (QV.Dispatch.table.map QV.Dispatch.Row.str))
  | "DPRIMS" =>
    pure (" | ".intercalate (QV.Dispatch.prims.map fun t => s!"{t.1} {t.2.1.str} {t.2.2.str}"))
  | "DTABLEOK" =>
    -- `tableOk prims rows` on rows regenerated from the source
    let n ← nextNat
    let mut rows : List QV.Dispatch.Row := []
    for _ in [0:n] do
      rows := (← nextRow) :: rows
    pure (if QV.Dispatch.tableOk QV.Dispatch.prims rows.reverse then "ok" else "bad")
  | "" => pure ""
  | c => pure s!"bad-op {c}"

partial def loop (h : IO.FS.Stream) : IO Unit := do
  let line ← h.getLine
  if line.isEmpty then return ()
  let toks := (line.splitOn " ").filter (· ≠ "") |>.map (fun s => s.trimAscii.toString) |>.filter (· ≠ "")
  let (out, _) := handle.run { toks := toks.toArray }
  IO.println out
  loop h

def main : IO Unit := do
  loop (← IO.getStdin)
