/-
  Line-protocol driver for property C13: runs the QASM writer/reader model
  (`QV.Model.Qasm`) and the serialisation models (`QV.Model.Serial`) on one case per
  input line.  Import-free of Mathlib.  Run with `lake env lean --run DriverC13.lean`.

  line := "EXP" circ                       writer text, then reader on the writer's lines
        | "IMP" nl stmt*nl                 reader on a statement list
        | "NAME" label                     _qibo_gate_name
        | "DICT" nreq req*nreq argParam nn name*nn na arg*na nk (key val)*nk nh (len val*len)*nh
                                           from_dict(raw(g after the updates)).parameters
        | "RES" savesFreq hasSamples nops op*nops      op := S | F
        | "XPD" ndir (name lo hi)*ndir ns xstmt*ns      custom-gate expansion (QV.Model.QasmDef):
                                           queue entries (tree), flat gate list, inlining spec
        | "EXPR" expr                      argument evaluation (QV.Model.QasmExpr) on IEEE doubles:
                                           bits of argValue | NONE, bits of eval, isSum
        | "RESG" kind nops op*nops          kind := G | S | P ; result built from gates holding shots /
                                           a samples array / probabilities (QV.Model.SerialGates):
                                           has_samples before the dump, loaded samples same|diff|free
  expr := "N" bits | "P" | "NEG" expr | "B" op expr expr        op := + | - | * | /
  xstmt := "D" name nf formal*nf nq qformal*nq nb call*nb | "C" call
  call := name na arg*na nq qarg*nq     arg := "V" token | "S" ident     qarg := "I" n | "N" ident
  circ := n ng (label nq q*nq np p*np)*ng nr (name k q*k)*nr
  stmt := "Q" name size | "C" name size | "G" label np p*np nq (reg idx)*nq
        | "M" reg idx creg cidx
-/
import QV.Model.Qasm
import QV.Model.Serial
import QV.Model.QasmDef
import QV.Model.QasmExpr
import QV.Model.SerialGates
open QV.Qasm QV.Serial

structure Rd where
  toks : Array String
  pos : Nat := 0

abbrev P := StateM Rd

def nextTok : P String := do
  let s ← get
  set { s with pos := s.pos + 1 }
  pure (s.toks.getD s.pos "")

def nextNat : P Nat := do
  let t ← nextTok
  pure (t.toNat?.getD 0)

def nextInt : P Int := do
  let t ← nextTok
  pure (t.toInt?.getD 0)

def rep {α : Type} (k : Nat) (p : P α) : P (List α) := do
  let mut out := []
  for _ in [0:k] do
    out := (← p) :: out
  pure out.reverse

def nextGate : P GateS := do
  let label ← nextTok
  let nq ← nextNat
  let qs ← rep nq nextNat
  let np ← nextNat
  let ps ← rep np nextTok
  pure ⟨label, qs, ps⟩

def nextReg : P Reg := do
  let name ← nextTok
  let k ← nextNat
  let qs ← rep k nextNat
  pure ⟨name, qs⟩

def nextCirc : P Circ := do
  let n ← nextNat
  let ng ← nextNat
  let gs ← rep ng nextGate
  let nr ← nextNat
  let rs ← rep nr nextReg
  pure ⟨n, gs, rs⟩

def nextQRef : P QRef := do
  let r ← nextTok
  let i ← nextNat
  pure ⟨r, i⟩

def nextStmt : P Line := do
  let k ← nextTok
  match k with
  | "Q" => do let nm ← nextTok; let sz ← nextNat; pure (.qreg nm sz)
  | "C" => do let nm ← nextTok; let sz ← nextNat; pure (.creg nm sz)
  | "G" => do
    let label ← nextTok
    let np ← nextNat
    let ps ← rep np nextTok
    let nq ← nextNat
    let qs ← rep nq nextQRef
    pure (.gate label ps qs)
  | _ => do
    let q ← nextQRef
    let creg ← nextTok
    let idx ← nextNat
    pure (.measure q creg idx)

def showNats (l : List Nat) : String := " ".intercalate (l.map toString)

def showCirc (c : Circ) : String :=
  let gs := c.gates.map fun g => s!"{g.label} {showNats g.qubits} ( {" ".intercalate g.params} )"
  let rs := c.regs.map fun r => s!"{r.name}: {showNats r.qubits}"
  s!"{c.nqubits} ; {" ; ".intercalate gs} # {" ; ".intercalate rs}"

def showOpt (c : Option Circ) : String :=
  match c with
  | none => "NONE"
  | some c => showCirc c

/-! ### argument evaluation -/

instance : QV.QasmExpr.Arith Float :=
  ⟨(· + ·), (· - ·), (· * ·), (· / ·), Float.neg, Float.ofBits 0x400921FB54442D18⟩

partial def nextExpr : P (QV.QasmExpr.Expr Float) := do
  let k ← nextTok
  match k with
  | "N" => do pure (.num (Float.ofBits (← nextNat).toUInt64))
  | "P" => pure .pi
  | "NEG" => do pure (.neg (← nextExpr))
  | _ => do
    let o ← nextTok
    let l ← nextExpr
    let r ← nextExpr
    let op : QV.QasmExpr.Op := if o = "+" then .add else if o = "-" then .sub else if o = "*" then .mul else .div
    pure (.bin op l r)

/-! ### custom-gate expansion -/

open QV.QasmDef in
def nextArg : P (Arg String) := do
  let k ← nextTok
  let t ← nextTok
  pure (if k = "V" then .val t else .sym t)

open QV.QasmDef in
def nextQArg : P QArg := do
  let k ← nextTok
  if k = "I" then do pure (.idx (← nextNat)) else do pure (.name (← nextTok))

open QV.QasmDef in
def nextCall : P (Call String) := do
  let nm ← nextTok
  let na ← nextNat
  let args ← rep na nextArg
  let nq ← nextNat
  let qs ← rep nq nextQArg
  pure ⟨nm, args, qs⟩

open QV.QasmDef in
def nextXStmt : P (Stmt String) := do
  let k ← nextTok
  if k = "D" then do
    let nm ← nextTok
    let nf ← nextNat
    let fs ← rep nf nextTok
    let nq ← nextNat
    let qf ← rep nq nextTok
    let nb ← nextNat
    let body ← rep nb nextCall
    pure (.gdef ⟨nm, fs, qf, body⟩)
  else do
    pure (.call (← nextCall))

open QV.QasmDef in
def showQArg : QArg → String
  | .idx q => toString q
  | .name s => s

open QV.QasmDef in
def showArg : Arg String → String
  | .val v => v
  | .sym s => s!"'{s}'"

open QV.QasmDef in
def showPrim (p : Prim String) : String :=
  s!"{p.cls} {" ".intercalate (p.qs.map showQArg)} ( {" ".intercalate (p.args.map showArg)} )"

/-- `sorted(set(...))` of the joined qubits (indices at top level) -/
def normQubits (l : List QV.QasmDef.QArg) : String :=
  let idx := l.filterMap fun q => match q with | .idx n => some n | .name _ => none
  let srt := (idx.toArray.qsort (· < ·)).toList.eraseDups
  let nm := (l.filterMap fun q => match q with | .name s => some s | .idx _ => none).eraseDups
  " ".intercalate (srt.map toString ++ nm)

open QV.QasmDef in
def showSG : SG String → String
  | .prim p => s!"P {showPrim p}"
  | .fused f => s!"F [ {normQubits f.qs} ] {" ; ".intercalate (f.gates.map showPrim)}"

/-- symbolic oracle: fresh draws are distinct terms, `count (expand f t) = f` -/
inductive Term where
  | drawS (t : Nat)
  | drawF (t : Nat)
  | expand (f : Term) (t : Nat)
  | count (s : Term)
  | given
deriving DecidableEq, Repr

def symOracle : Oracle Term Term :=
  { count := fun s => match s with
      | .expand f _ => f
      | s => .count s,
    drawS := .drawS, drawF := .drawF, expand := .expand }

def symOracleG : QV.SerialGates.Oracle Term Term :=
  { count := fun s => match s with
      | .expand f _ => f
      | s => .count s,
    drawS := .drawS, drawF := .drawF, expand := .expand }

def handle (line : String) : String :=
  let toks := (line.splitOn " ").filter (· ≠ "") |>.toArray
  let run : P String := do
    let cmd ← nextTok
    match cmd with
    | "EXP" => do
      let c ← nextCirc
      let ls := exportLines c
      pure s!"{" | ".intercalate (ls.map Line.text)} || {showOpt (importLines ls)} || {c.wf}"
    | "IMP" => do
      let nl ← nextNat
      let ls ← rep nl nextStmt
      pure (showOpt (importLines ls))
    | "NAME" => do
      let l ← nextTok
      pure (qiboGateName l)
    | "DICT" => do
      let nr ← nextNat
      let req ← rep nr nextTok
      let ap ← nextNat
      let nn ← nextNat
      let names ← rep nn nextTok
      let na ← nextNat
      let args ← rep na nextInt
      let nk ← nextNat
      let kws ← rep nk (do let k ← nextTok; let v ← nextInt; pure (k, v))
      let nh ← nextNat
      let hist ← rep nh (do let l ← nextNat; rep l nextInt)
      let params : List Int :=
        if ap = 1 then args.take 1 else (lookupAll kws names).getD []
      let g : GateObj Int :=
        { cls := "", paramNames := names, argParam := ap = 1, initArgs := args, initKwargs := kws,
          targets := [], controls := [], params := params }
      let g' := g.history hist
      match fromDict g (g'.raw req) with
      | none => pure s!"NONE cur {" ".intercalate (g'.params.map toString)}"
      | some k => pure s!"{" ".intercalate (k.params.map toString)} cur {" ".intercalate (g'.params.map toString)}"
    | "RES" => do
      let sf ← nextNat
      let hs ← nextNat
      let nops ← nextNat
      let ops ← rep nops (do let t ← nextTok; pure (if t = "S" then Op.samples else Op.frequencies))
      let r0 : Res Term Term := if hs = 1 then { samples := some .given } else {}
      let r := r0.run symOracle ops
      let l := load (r.dump (sf = 1)) 1000
      -- what was determined before the dump must be reproduced by the loaded object
      let sOk := match r.samples with
        | none => "free"
        | some s => if l.obsSamples symOracle = some s then "same" else "diff"
      let fOk := match r.freqs, r.samples with
        | none, none => "free"
        | _, _ => if l.obsFreq symOracle = r.obsFreq symOracle then "same" else "diff"
      pure s!"{sOk} {fOk}"
    | "RESG" => do
      let k ← nextTok
      let nops ← nextNat
      let ops ← rep nops (do let t ← nextTok; pure (if t = "S" then QV.SerialGates.Op.samples else QV.SerialGates.Op.frequencies))
      let r0 : QV.SerialGates.Res Term Term :=
        if k = "G" then QV.SerialGates.ofGates (some .given) 9
        else if k = "S" then QV.SerialGates.ofSamples .given 9 else QV.SerialGates.ofProbs 9
      let r := r0.run symOracleG ops
      let l : QV.SerialGates.Res Term Term := QV.SerialGates.load (r.dump false) 1000
      let same := if r.hasSamples then
          (if l.hasSamples && l.obsSamples symOracleG = r.obsSamples symOracleG then "same" else "diff")
        else "free"
      pure s!"{r.hasSamples} {same}"
    | "EXPR" => do
      let e ← nextExpr
      let a := match QV.QasmExpr.argValue (fun _ => (0 : Float)) e with
        | none => "NONE"
        | some v => toString v.toBits
      pure s!"{a} {(QV.QasmExpr.eval (fun _ => (0 : Float)) e).toBits} {e.isSum}"
    | "XPD" => do
      let nd ← nextNat
      let dir ← rep nd (do let nm ← nextTok; let lo ← nextNat; let hi ← nextNat; pure (nm, lo, hi))
      let ns ← nextNat
      let prog ← rep ns nextXStmt
      let builtin : QV.QasmDef.Builtins :=
        { cls := fun nm =>
            let c := qiboGateName nm
            if (dir.map (·.1)).contains c then some c else none,
          ctorOk := fun c k => match dir.find? (·.1 = c) with
            | some (_, lo, hi) => lo ≤ k && k ≤ hi
            | none => false }
      let tree := match QV.QasmDef.run builtin [] prog with
        | none => "NONE"
        | some gs => " | ".intercalate (gs.map showSG)
      let flat := match QV.QasmDef.run builtin [] prog with
        | none => "NONE"
        | some gs => " ; ".intercalate ((QV.QasmDef.flatten gs).map showPrim)
      let spec := match QV.QasmDef.inlineProg builtin [] prog with
        | none => "NONE"
        | some ps => " ; ".intercalate (ps.map showPrim)
      pure s!"{tree} || {flat} || {spec}"
    | _ => pure "?"
  (run.run { toks := toks }).1

partial def loop (h : IO.FS.Stream) : IO Unit := do
  let line ← h.getLine
  if line.isEmpty then return
  IO.println (handle (line.trimAscii.toString))
  loop h

def main : IO Unit := do
  loop (← IO.getStdin)
