/-
  Line-protocol driver for property C13: runs the QASM writer/reader model
  (`QV.Model.Qasm`) and the serialisation models (`QV.Model.Serial`) on one case per
  input line.  Import-free of Mathlib.  Run with `lake env lean --run DriverC13.lean`.

  line := "EXP" circ                       writer text, then reader on the writer's lines
        | "IMP" nl stmt*nl                 reader on a statement list
        | "NAME" label                     _qibo_gate_name
        | "DICT" nreq req*nreq argParam nn name*nn na arg*na nk (key val)*nk nh (len val*len)*nh
                                           from_dict(raw(g after the updates)).parameters
        | "RES" savesFreq hasSamples nops op*nops      op := S | F
  circ := n ng (label nq q*nq np p*np)*ng nr (name k q*k)*nr
  stmt := "Q" name size | "C" name size | "G" label np p*np nq (reg idx)*nq
        | "M" reg idx creg cidx
-/
import QV.Model.Qasm
import QV.Model.Serial
open QV.Qasm QV.Serial

structure Rd where
  toks : Array String
  pos : Nat := 0

abbrev P := StateM Rd

def nextTok : P String := do
  let s ← get
  set { s with pos := s.pos + 1 }
  pure (s.toks.getD s.pos "")

def nextNat : P Nat := do
  let t ← nextTok
  pure (t.toNat?.getD 0)

def nextInt : P Int := do
  let t ← nextTok
  pure (t.toInt?.getD 0)

def rep {α : Type} (k : Nat) (p : P α) : P (List α) := do
  let mut out := []
  for _ in [0:k] do
    out := (← p) :: out
  pure out.reverse

def nextGate : P GateS := do
  let label ← nextTok
  let nq ← nextNat
  let qs ← rep nq nextNat
  let np ← nextNat
  let ps ← rep np nextTok
  pure ⟨label, qs, ps⟩

def nextReg : P Reg := do
  let name ← nextTok
  let k ← nextNat
  let qs ← rep k nextNat
  pure ⟨name, qs⟩

def nextCirc : P Circ := do
  let n ← nextNat
  let ng ← nextNat
  let gs ← rep ng nextGate
  let nr ← nextNat
  let rs ← rep nr nextReg
  pure ⟨n, gs, rs⟩

def nextQRef : P QRef := do
  let r ← nextTok
  let i ← nextNat
  pure ⟨r, i⟩

def nextStmt : P Line := do
  let k ← nextTok
  match k with
  | "Q" => do let nm ← nextTok; let sz ← nextNat; pure (.qreg nm sz)
  | "C" => do let nm ← nextTok; let sz ← nextNat; pure (.creg nm sz)
  | "G" => do
    let label ← nextTok
    let np ← nextNat
    let ps ← rep np nextTok
    let nq ← nextNat
    let qs ← rep nq nextQRef
    pure (.gate label ps qs)
  | _ => do
    let q ← nextQRef
    let creg ← nextTok
    let idx ← nextNat
    pure (.measure q creg idx)

def showNats (l : List Nat) : String := " ".intercalate (l.map toString)

def showCirc (c : Circ) : String :=
  let gs := c.gates.map fun g => s!"{g.label} {showNats g.qubits} ( {" ".intercalate g.params} )"
  let rs := c.regs.map fun r => s!"{r.name}: {showNats r.qubits}"
  s!"{c.nqubits} ; {" ; ".intercalate gs} # {" ; ".intercalate rs}"

def showOpt (c : Option Circ) : String :=
  match c with
  | none => "NONE"
  | some c => showCirc c

/-- symbolic oracle: fresh draws are distinct terms, `count (expand f t) = f` -/
inductive Term where
  | drawS (t : Nat)
  | drawF (t : Nat)
  | expand (f : Term) (t : Nat)
  | count (s : Term)
  | given
deriving DecidableEq, Repr

def symOracle : Oracle Term Term :=
  { count := fun s => match s with
      | .expand f _ => f
      | s => .count s,
    drawS := .drawS, drawF := .drawF, expand := .expand }

def handle (line : String) : String :=
  let toks := (line.splitOn " ").filter (· ≠ "") |>.toArray
  let run : P String := do
    let cmd ← nextTok
    match cmd with
    | "EXP" => do
      let c ← nextCirc
      let ls := exportLines c
      pure s!"{" | ".intercalate (ls.map Line.text)} || {showOpt (importLines ls)} || {c.wf}"
    | "IMP" => do
      let nl ← nextNat
      let ls ← rep nl nextStmt
      pure (showOpt (importLines ls))
    | "NAME" => do
      let l ← nextTok
      pure (qiboGateName l)
    | "DICT" => do
      let nr ← nextNat
      let req ← rep nr nextTok
      let ap ← nextNat
      let nn ← nextNat
      let names ← rep nn nextTok
      let na ← nextNat
      let args ← rep na nextInt
      let nk ← nextNat
      let kws ← rep nk (do let k ← nextTok; let v ← nextInt; pure (k, v))
      let nh ← nextNat
      let hist ← rep nh (do let l ← nextNat; rep l nextInt)
      let params : List Int :=
        if ap = 1 then args.take 1 else (lookupAll kws names).getD []
      let g : GateObj Int :=
        { cls := "", paramNames := names, argParam := ap = 1, initArgs := args, initKwargs := kws,
          targets := [], controls := [], params := params }
      let g' := g.history hist
      match fromDict g (g'.raw req) with
      | none => pure s!"NONE cur {" ".intercalate (g'.params.map toString)}"
      | some k => pure s!"{" ".intercalate (k.params.map toString)} cur {" ".intercalate (g'.params.map toString)}"
    | "RES" => do
      let sf ← nextNat
      let hs ← nextNat
      let nops ← nextNat
      let ops ← rep nops (do let t ← nextTok; pure (if t = "S" then Op.samples else Op.frequencies))
      let r0 : Res Term Term := if hs = 1 then { samples := some .given } else {}
      let r := r0.run symOracle ops
      let l := load (r.dump (sf = 1)) 1000
      -- what was determined before the dump must be reproduced by the loaded object
      let sOk := match r.samples with
        | none => "free"
        | some s => if l.obsSamples symOracle = some s then "same" else "diff"
      let fOk := match r.freqs, r.samples with
        | none, none => "free"
        | _, _ => if l.obsFreq symOracle = r.obsFreq symOracle then "same" else "diff"
      pure s!"{sOk} {fOk}"
    | _ => pure "?"
  (run.run { toks := toks }).1

partial def loop (h : IO.FS.Stream) : IO Unit := do
  let line ← h.getLine
  if line.isEmpty then return
  IO.println (handle (line.trimAscii.toString))
  loop h

def main : IO Unit := do
  loop (← IO.getStdin)
