/-
  Line-protocol driver: runs the executable Lean models on the inputs the harness
  sends (one case per line, whitespace separated integers) and prints one canonical
  answer per line.  Run with `lake env lean --run Driver.lean`.
-/
import QV.Core.GI
import QV.Model.Table
import QV.Model.Sim
open QV

structure Rd where
  toks : Array String
  pos : Nat := 0

abbrev P := StateM Rd

def nextTok : P String := do
  let s ← get
  set { s with pos := s.pos + 1 }
  pure (s.toks.getD s.pos "")

def nextInt : P Int := do
  let t ← nextTok
  pure (t.toInt?.getD 0)

def nextNat : P Nat := do
  let t ← nextInt
  pure t.toNat

def nextNats (k : Nat) : P (List Nat) := do
  let mut out := []
  for _ in [0:k] do
    out := (← nextNat) :: out
  pure out.reverse

def nextGI : P GI := do
  let a ← nextInt
  let b ← nextInt
  pure ⟨a, b⟩

def nextGIs (k : Nat) : P (Array GI) := do
  let mut out := Array.mkEmpty k
  for _ in [0:k] do
    out := out.push (← nextGI)
  pure out

/-- gate: k nc t1..tk c1..cnc then 2^k*2^k entries (row major). -/
def nextGate : P (MGate GI) := do
  let k ← nextNat
  let nc ← nextNat
  let ts ← nextNats k
  let cs ← nextNats nc
  let d := 2 ^ k
  let m ← nextGIs (d * d)
  pure { mat := fun i j => m.getD (i * d + j) 0, targets := ts, controls := cs }

def showGIs (a : Array GI) : String :=
  " ".intercalate (a.toList.map GI.toStr)

/-- run gates one at a time, materialising after each so closures stay shallow. -/
def runSV (n : Nat) (gs : List (MGate GI)) (ψ : Array GI) : Array GI :=
  gs.foldl (fun s g => tableOf n (applyGate g (ofTable n s))) ψ

def runDM (n : Nat) (gs : List (MGate GI)) (ρ : Array GI) : Array GI :=
  gs.foldl (fun s g =>
    let r1 := tableOf2 n (applyRight GI.conj g (ofTable2 n s))
    tableOf2 n (applyLeft g (ofTable2 n r1))) ρ

def handle : P String := do
  let cmd ← nextTok
  match cmd with
  | "SV" =>
    let n ← nextNat
    let ng ← nextNat
    let mut gs := []
    for _ in [0:ng] do
      gs := (← nextGate) :: gs
    let ψ ← nextGIs (2 ^ n)
    pure (showGIs (runSV n gs.reverse ψ))
  | "DM" =>
    let n ← nextNat
    let ng ← nextNat
    let mut gs := []
    for _ in [0:ng] do
      gs := (← nextGate) :: gs
    let ρ ← nextGIs (2 ^ n * 2 ^ n)
    pure (showGIs (runDM n gs.reverse ρ))
  | "UNITARY" =>
    -- full matrix of a gate list: column j = run on basis state j; printed row major
    let n ← nextNat
    let ng ← nextNat
    let mut gs := []
    for _ in [0:ng] do
      gs := (← nextGate) :: gs
    let gsr := gs.reverse
    let d := 2 ^ n
    let cols := (List.range d).map fun j =>
      runSV n gsr (Array.ofFn (n := d) fun i => if i.val = j then (1 : GI) else 0)
    let entries := (List.range d).flatMap fun i => cols.map fun c => c.getD i 0
    pure (showGIs entries.toArray)
  | "" => pure ""
  | c => pure s!"bad-op {c}"

partial def loop (h : IO.FS.Stream) : IO Unit := do
  let line ← h.getLine
  if line.isEmpty then return ()
  let toks := (line.splitOn " ").filter (· ≠ "") |>.map (fun s => s.trimAscii.toString) |>.filter (· ≠ "")
  let (out, _) := handle.run { toks := toks.toArray }
  IO.println out
  loop h

def main : IO Unit := do
  loop (← IO.getStdin)
