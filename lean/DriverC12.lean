/-
  Line-protocol driver of the Clifford tableau model (QV/Model/Clifford.lean).
  Run with `lake env lean --run DriverC12.lean`.

    G n <rows: (2n+1) strings of 2n+1 bits>  name a b k     -> tableau after the gate
    R n <rows> ngates (name a b k)*                          -> tableau after all gates
    M n <rows> m q_1..q_m coin_1..coin_m                     -> outcomes, flags, tableau
    Z n                                                      -> zero state
    MAT1 name k / MAT2 name k                                -> gate matrix (re im …, row major)
    SV n ngates (name a b k)*     -> state vector of the simulator model from |0…0> (re im …) |
                                     per stabiliser row: does `pauliOp n row` fix it? | tableau
    PO n row (re im)*2^n          -> `pauliOp n row` applied to the given state vector
    AG n <rows>                   -> gate list of the model of `to_circuit("AG04")` (name q.., comma separated) |
                                     working tableau after both loops | tableau of the returned circuit from the zero state
    BM n <rows>                   -> gate list of the model of `to_circuit("BM20")` | tableau of it from the zero state | CNOT cost
                                     (RAISES: an exception)
    RP n hasinit [<rows>] nitems item* nf q_1..q_nf nshots (ncoins coin* fcoin*nf)*  -> per shot `collapse outcomes;final sample`, joined by ' / '
    EX n hasinit [<rows>] nitems item* ncoins coin*   -> REFUSED | ENGINE | DONE <tableau> | outcomes
         item = G flag hasop name a b k | M collapse m q_1..q_m | N hasop name a b k
-/
import QV.Model.CliffordMat
import QV.Model.CliffordSV
import QV.Model.Table
import QV.Model.CliffordSynth
import QV.Model.CliffordAccept
open QV QV.Cliff

structure Rd where
  toks : Array String
  pos : Nat := 0

abbrev P := StateM Rd

def nextTok : P String := do
  let s ← get
  set { s with pos := s.pos + 1 }
  pure (s.toks.getD s.pos "")

def nextInt : P Int := do
  let t ← nextTok
  pure (t.toInt?.getD 0)

def nextNat : P Nat := do
  let t ← nextInt
  pure t.toNat

/-- a row from its bit string `x_0..x_{n-1} z_0..z_{n-1} r`. -/
def rowOfString (n : Nat) (s : String) : Row :=
  let a := s.toList.toArray
  { x := fun k => k < n && a.getD k '0' == '1',
    z := fun k => k < n && a.getD (n + k) '0' == '1',
    r := a.getD (2 * n) '0' == '1' }

def bit (b : Bool) : Char := if b then '1' else '0'

def rowToString (n : Nat) (w : Row) : String :=
  String.ofList (((List.range n).map fun k => bit (w.x k)) ++ ((List.range n).map fun k => bit (w.z k)) ++ [bit w.r])

/-- materialise a row (keeps closures shallow between gates). -/
def norm (n : Nat) (w : Row) : Row := rowOfString n (rowToString n w)

def showT (n : Nat) (T : Tableau) : String := " ".intercalate (T.map (rowToString n))

def nextTableau (n : Nat) : P Tableau := do
  let mut out := []
  for _ in [0:2 * n + 1] do
    out := rowOfString n (← nextTok) :: out
  pure out.reverse

def nextGate : P (Option Gate) := do
  let name ← nextTok
  let a ← nextNat
  let b ← nextNat
  let k ← nextInt
  pure <| match name with
    | "I" => some (.I a) | "H" => some (.H a) | "X" => some (.X a) | "Y" => some (.Y a)
    | "Z" => some (.Z a) | "S" => some (.S a) | "SDG" => some (.SDG a) | "SX" => some (.SX a)
    | "SXDG" => some (.SXDG a)
    | "CNOT" => some (.CNOT a b) | "CZ" => some (.CZ a b) | "CY" => some (.CY a b)
    | "SWAP" => some (.SWAP a b) | "iSWAP" => some (.iSWAP a b) | "FSWAP" => some (.FSWAP a b)
    | "ECR" => some (.ECR a b)
    | "RX" => some (.RX a k) | "RY" => some (.RY a k) | "RZ" => some (.RZ a k)
    | "CRX" => some (.CRX a b k) | "CRY" => some (.CRY a b k) | "CRZ" => some (.CRZ a b k)
    | _ => none

def gateTok : Gate → String
  | .I q => s!"I {q}" | .H q => s!"H {q}" | .X q => s!"X {q}" | .Y q => s!"Y {q}" | .Z q => s!"Z {q}"
  | .S q => s!"S {q}" | .SDG q => s!"SDG {q}" | .SX q => s!"SX {q}" | .SXDG q => s!"SXDG {q}"
  | .CNOT c t => s!"CNOT {c} {t}" | .CZ c t => s!"CZ {c} {t}" | .CY c t => s!"CY {c} {t}"
  | .SWAP c t => s!"SWAP {c} {t}" | .iSWAP c t => s!"iSWAP {c} {t}" | .FSWAP c t => s!"FSWAP {c} {t}"
  | .ECR c t => s!"ECR {c} {t}"
  | .RX q k => s!"RX {q} {k}" | .RY q k => s!"RY {q} {k}" | .RZ q k => s!"RZ {q} {k}"
  | .CRX c t k => s!"CRX {c} {t} {k}" | .CRY c t k => s!"CRY {c} {t} {k}" | .CRZ c t k => s!"CRZ {c} {t} {k}"

def showGates (gs : List Gate) : String := ",".intercalate (gs.map gateTok)

def showGIs (a : Array GI) : String := " ".intercalate (a.toList.map GI.toStr)

/-- `pauliOp n w` on a materialised state, materialising after every tensor factor. -/
def pauliOpTab (n : Nat) (w : Row) (a : Array GI) : Array GI :=
  let b := (List.range n).foldr (fun k s => tableOf n (pauliList [k] w (ofTable n s))) a
  tableOf n (fun x => sgn w.r * ofTable n b x)

def handle : P String := do
  let cmd ← nextTok
  match cmd with
  | "SV" =>
    let n ← nextNat
    let ng ← nextNat
    let mut T := zeroState n
    let mut ψ := tableOf n (zeroKet n)
    let mut ok := true
    for _ in [0:ng] do
      match (← nextGate) with
      | some g =>
        T := (Cliff.applyGate g T).map (norm n)
        ψ := tableOf n (QV.runCircuit [g.mgate] (ofTable n ψ))
      | none => ok := false
    if !ok then pure "bad-gate" else
    let direct := tableOf n (pauliOp n (getRow T n) (ofTable n ψ))   -- row n by the definition itself
    let flags := (List.range n).map fun i => bit (pauliOpTab n (getRow T (n + i)) ψ == ψ)
    let d := bit (n == 0 || direct == ψ)
    pure s!"{showGIs ψ} | {String.ofList flags}{d} | {showT n T}"
  | "PO" =>
    let n ← nextNat
    let w := rowOfString n (← nextTok)
    let mut a : Array GI := Array.mkEmpty (2 ^ n)
    for _ in [0:2 ^ n] do
      let re ← nextInt
      let im ← nextInt
      a := a.push ⟨re, im⟩
    pure (showGIs (tableOf n (pauliOp n w (ofTable n a))))
  | "G" =>
    let n ← nextNat
    let T ← nextTableau n
    match (← nextGate) with
    | some g => pure (showT n (applyGate g T))
    | none => pure "bad-gate"
  | "R" =>
    let n ← nextNat
    let mut T ← nextTableau n
    let ng ← nextNat
    for _ in [0:ng] do
      match (← nextGate) with
      | some g => T := (applyGate g T).map (norm n)
      | none => T := []
    pure (showT n T)
  | "M" =>
    let n ← nextNat
    let T ← nextTableau n
    let m ← nextNat
    let mut qs := []
    for _ in [0:m] do
      qs := (← nextNat) :: qs
    let mut coins := []
    for _ in [0:m] do
      coins := ((← nextNat) == 1) :: coins
    let (T', res) := measure n T qs.reverse coins.reverse
    let outs := String.ofList (res.map fun (o, _) => bit o)
    let flags := String.ofList (res.map fun (_, f) => bit f)
    pure s!"{outs} {flags} {showT n T'}"
  | "Z" =>
    let n ← nextNat
    pure (showT n (zeroState n))
  | "EX" =>
    let n ← nextNat
    let hasInit ← nextNat
    let mut init : Option Tableau := none
    if hasInit == 1 then
      init := some (← nextTableau n)
    let ni ← nextNat
    let mut items : List QItem := []
    let mut ok := true
    for _ in [0:ni] do
      let kind ← nextTok
      match kind with
      | "G" =>
        let flag ← nextNat
        let hasop ← nextNat
        let g ← nextGate
        if hasop == 1 && g.isNone then ok := false
        items := QItem.gate (flag == 1) (if hasop == 1 then g else none) :: items
      | "M" =>
        let cl ← nextNat
        let m ← nextNat
        let mut qs := []
        for _ in [0:m] do
          qs := (← nextNat) :: qs
        items := QItem.meas qs.reverse (cl == 1) :: items
      | "N" =>
        let hasop ← nextNat
        let g ← nextGate
        if hasop == 1 && g.isNone then ok := false
        items := QItem.noise (if hasop == 1 then g else none) :: items
      | _ => ok := false
    let nc ← nextNat
    let mut coins := []
    for _ in [0:nc] do
      coins := ((← nextNat) == 1) :: coins
    if !ok then pure "bad-item" else
    match execute n init items.reverse coins.reverse with
    | .refused => pure "REFUSED"
    | .engineError => pure "ENGINE"
    | .done T outs =>
      let os := ",".intercalate (outs.map fun o => String.ofList (o.map bit))
      pure s!"DONE {showT n (T.map (norm n))} | {os}"
  | "BM" =>
    let n ← nextNat
    let T ← nextTableau n
    match toCircuitBM20 n T with
    | some gs => pure s!"{showGates gs} | {showT n ((runGates gs (zeroState n)).map (norm n))} | {cnotCost n T}"
    | none => pure "RAISES"
  | "RP" =>
    let n ← nextNat
    let hasInit ← nextNat
    let mut init : Option Tableau := none
    if hasInit == 1 then
      init := some (← nextTableau n)
    let ni ← nextNat
    let mut items : List QItem := []
    let mut ok := true
    for _ in [0:ni] do
      let kind ← nextTok
      match kind with
      | "G" =>
        let flag ← nextNat
        let hasop ← nextNat
        let g ← nextGate
        if hasop == 1 && g.isNone then ok := false
        items := QItem.gate (flag == 1) (if hasop == 1 then g else none) :: items
      | "M" =>
        let cl ← nextNat
        let m ← nextNat
        let mut qs := []
        for _ in [0:m] do
          qs := (← nextNat) :: qs
        items := QItem.meas qs.reverse (cl == 1) :: items
      | "N" =>
        let hasop ← nextNat
        let g ← nextGate
        if hasop == 1 && g.isNone then ok := false
        items := QItem.noise (if hasop == 1 then g else none) :: items
      | _ => ok := false
    let nf ← nextNat
    let mut fq := []
    for _ in [0:nf] do
      fq := (← nextNat) :: fq
    let nshots ← nextNat
    let mut shots : List (List Bool × List Bool) := []
    for _ in [0:nshots] do
      let nc ← nextNat
      let mut coins := []
      for _ in [0:nc] do
        coins := ((← nextNat) == 1) :: coins
      let mut fc := []
      for _ in [0:nf] do
        fc := ((← nextNat) == 1) :: fc
      shots := (coins.reverse, fc.reverse) :: shots
    if !ok then pure "bad-item" else
    let rs := executeRepeated n init items.reverse fq.reverse shots.reverse
    let showShot := fun (p : Res × List Bool) =>
      match p.1 with
      | .refused => "REFUSED"
      | .engineError => "ENGINE"
      | .done _ outs => ",".intercalate (outs.map fun o => String.ofList (o.map bit)) ++ ";" ++ String.ofList (p.2.map bit)
    pure (" / ".intercalate (rs.map showShot))
  | "AG" =>
    let n ← nextNat
    let T ← nextTableau n
    let gs := toCircuitAG04 n T
    let fwd := ag04Forward n T
    pure s!"{showGates gs} | {showT n (fwd.1.map (norm n))} | {showT n ((runGates gs (zeroState n)).map (norm n))}"
  | "MAT1" =>
    let name ← nextTok
    let k ← nextInt
    let U := mat1 name k
    pure (" ".intercalate ((List.finRange 2).flatMap fun i => (List.finRange 2).map fun j => (U i j).toStr))
  | "MAT2" =>
    let name ← nextTok
    let k ← nextInt
    let U := mat2 name k
    pure (" ".intercalate ((List.finRange 4).flatMap fun i => (List.finRange 4).map fun j => (U i j).toStr))
  | "" => pure ""
  | c => pure s!"bad-op {c}"

partial def loop (h : IO.FS.Stream) : IO Unit := do
  let line ← h.getLine
  if line.isEmpty then return ()
  let toks := (line.splitOn " ").filter (· ≠ "") |>.map (fun s => s.trimAscii.toString) |>.filter (· ≠ "")
  let (out, _) := handle.run { toks := toks.toArray }
  IO.println out
  loop h

def main : IO Unit := do
  loop (← IO.getStdin)
