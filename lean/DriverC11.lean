/-
  Line-protocol driver of the pipeline model (QV/Model/Pipeline.lean).
  One case per input line, one canonical answer line.
  Run with `lake env lean --run DriverC11.lean`.

  gate   := cls tag k q1..qk
  gates  := m gate*m
  device := nn node*nn ne (a b)*ne
  circ   := n nw w*nw gates
  PAD device circ                -> ERR | n | wires | queue-unchanged bit
  ASSERT device nat circ         -> placement connectivity decomposition is_satisfied (bits)
  SORT k (key val)*k             -> keys sorted by value
  STARP device circ              -> ERR | wires
  RESTRICT device k q*k          -> ERR | nodes | edges
  RELABEL nw w*nw ne (a b)*ne    -> edges in wire indices
  PIPE device nat circ np pass*np
     pass := PRE | STAR | PLACE (ERR | k w*k) | ROUTE (ERR | gates nl l*nl) | UNROLL (ERR | gates)
     -> per pass "n | wires | qlen | layout | validation bit ;" … "# p c d s" of the final circuit, or ERR@i
     then "@ placed conn dec" (the flags placedAfter / connAfter / decAfter of the pass list) and "L layout"
  tables := TABLE*6 (gpi2 u3 cz iswap opt cnot), TABLE = k cls*k r ROW*r, ROW = cls tag m ugate*m,
            ugate = cls nq q*nq tag cb       (the format of DriverC10.lean, class ids of C10)
  LOCAL tables                   -> localCheck (true / false)
  DISPATCH nat fuel tables m ugate*m
     -> "closed local inputok | ERR"  or  "closed local inputok | OK cls:q,q:tag … | unrollOk bit"
        (the unroller pass computed by C10's dispatch model on the queue)
-/
import QV.Model.Pipeline
open QV.Pipe

structure Rd where
  toks : Array String
  pos : Nat := 0

abbrev P := StateM Rd

def nextTok : P String := do
  let s ← get
  set { s with pos := s.pos + 1 }
  pure (s.toks.getD s.pos "")

def peekTok : P String := do
  let s ← get
  pure (s.toks.getD s.pos "")

def nextNat : P Nat := do
  let t ← nextTok
  pure ((t.toInt?.getD 0).toNat)

def nextNats (k : Nat) : P (List Nat) := do
  let mut out := []
  for _ in [0:k] do
    out := (← nextNat) :: out
  pure out.reverse

def nextList : P (List Nat) := do
  let k ← nextNat
  nextNats k

def nextGate : P PGate := do
  let cls ← nextNat
  let tag ← nextNat
  let qs ← nextList
  pure ⟨cls, tag, qs⟩

def nextGates : P (List PGate) := do
  let k ← nextNat
  let mut out := []
  for _ in [0:k] do
    out := (← nextGate) :: out
  pure out.reverse

def nextPairs : P (List (Nat × Nat)) := do
  let k ← nextNat
  let mut out := []
  for _ in [0:k] do
    let a ← nextNat
    let b ← nextNat
    out := (a, b) :: out
  pure out.reverse

def nextUGate : P QV.Unroll.UGate := do
  let c ← nextNat
  let qs ← nextList
  let tag ← nextNat
  let cb ← nextNat
  pure { cls := c, qubits := qs, tag := tag, cb := cb != 0 }

def nextUGates : P (List QV.Unroll.UGate) := do
  let k ← nextNat
  let mut out := []
  for _ in [0:k] do
    out := (← nextUGate) :: out
  pure out.reverse

def nextTable : P QV.Unroll.TableData := do
  let cs ← nextList
  let r ← nextNat
  let mut rows := []
  for _ in [0:r] do
    let c ← nextNat
    let t ← nextNat
    let gs ← nextUGates
    rows := (c, t, gs) :: rows
  pure { classes := cs, rows := rows.reverse }

def nextTables : P QV.Unroll.TablesData := do
  let a ← nextTable
  let b ← nextTable
  let c ← nextTable
  let d ← nextTable
  let e ← nextTable
  let f ← nextTable
  pure ⟨a, b, c, d, e, f⟩

def showPGate (g : PGate) : String :=
  s!"{g.cls}:{",".intercalate (g.qs.map toString)}:{g.tag}"

def nextDevice : P Device := do
  let nodes ← nextList
  let edges ← nextPairs
  pure ⟨nodes, edges⟩

def nextCirc : P Circ := do
  let n ← nextNat
  let w ← nextList
  let q ← nextGates
  pure ⟨n, w, q⟩

def showNats (l : List Nat) : String := " ".intercalate (l.map toString)
def bit (b : Bool) : String := if b then "1" else "0"

def nextPass : P (Pass × String) := do
  let c ← nextTok
  match c with
  | "PRE" => pure (.pre, "PRE")
  | "STAR" => pure (.star, "STAR")
  | "PLACE" =>
    if (← peekTok) == "ERR" then
      let _ ← nextTok
      pure (.placer none, "PLACE")
    else
      pure (.placer (some (← nextList)), "PLACE")
  | "ROUTE" =>
    if (← peekTok) == "ERR" then
      let _ ← nextTok
      pure (.router none, "ROUTE")
    else
      let q ← nextGates
      let l ← nextList
      pure (.router (some (q, l)), "ROUTE")
  | _ =>
    if (← peekTok) == "ERR" then
      let _ ← nextTok
      pure (.unroller none, "UNROLL")
    else
      pure (.unroller (some (← nextGates)), "UNROLL")

def showState (s : PState) : String :=
  let l := match s.layout with
    | none => "N"
    | some l => "L " ++ showNats l
  s!"{s.circ.nqubits} | {showNats s.circ.wires} | {s.circ.queue.length} | {l}"

def handle : P String := do
  let cmd ← nextTok
  match cmd with
  | "PAD" =>
    let d ← nextDevice
    let c ← nextCirc
    match pad d c with
    | none => pure "ERR"
    | some c' => pure s!"{c'.nqubits} | {showNats c'.wires} | {bit (c'.queue == c.queue)}"
  | "ASSERT" =>
    let d ← nextDevice
    let nat ← nextNat
    let c ← nextCirc
    pure s!"{bit (assertPlacement d c)} {bit (assertConnectivity d c)} {bit (assertDecomposition nat c)} {bit (isSatisfied d nat c)}"
  | "SORT" =>
    let m ← nextPairs
    pure (showNats (sortedKeys m))
  | "STARP" =>
    let d ← nextDevice
    let c ← nextCirc
    match starPlace d c with
    | none => pure "ERR"
    | some w => pure (showNats w)
  | "RESTRICT" =>
    let d ← nextDevice
    let qs ← nextList
    match restrict d qs with
    | none => pure "ERR"
    | some d' => pure s!"{showNats d'.nodes} | {" ".intercalate (d'.edges.map fun (a, b) => s!"{a} {b}")}"
  | "RELABEL" =>
    let w ← nextList
    let es ← nextPairs
    pure (" ".intercalate ((relabelEdges w es).map fun (a, b) => s!"{a} {b}"))
  | "PIPE" =>
    let d ← nextDevice
    let nat ← nextNat
    let c ← nextCirc
    let np ← nextNat
    let mut s : PState := ⟨c, none⟩
    let mut out := ""
    let mut failed := false
    let mut ps : List Pass := []
    for i in [0:np] do
      let (p, _) ← nextPass
      ps := ps ++ [p]
      if !failed then
        let v := validPass d nat s p
        match runPass d s p with
        | none =>
          out := out ++ s!"ERR@{i}"
          failed := true
        | some s' =>
          s := s'
          out := out ++ s!"{showState s} | {bit v} ; "
    if failed then pure out
    else
      let lay := match layoutAfter none ps with
        | none => "N"
        | some l => "L " ++ showNats l
      pure s!"{out}# {bit (assertPlacement d s.circ)} {bit (assertConnectivity d s.circ)} {bit (assertDecomposition nat s.circ)} {bit (isSatisfied d nat s.circ)} @ {bit (placedAfter false ps)} {bit (connAfter false ps)} {bit (decAfter false ps)} {lay}"
  | "LOCAL" =>
    let D ← nextTables
    pure (toString (localCheck D))
  | "DISPATCH" =>
    let nat ← nextNat
    let fuel ← nextNat
    let D ← nextTables
    let gs ← nextUGates
    let q := gs.map PGate.ofU
    let head := s!"{bit (QV.Unroll.closedCheck D nat)} {bit (localCheck D)} {bit (unrollInputOk nat q && gs.all (fun x => !x.cb))}"
    match unrollDispatch D.toTables nat fuel q with
    | none => pure s!"{head} | ERR"
    | some out => pure s!"{head} | OK {" ".intercalate (out.map showPGate)} | {bit (unrollOk nat q out)}"
  | "" => pure ""
  | c => pure s!"bad-op {c}"

partial def loop (h : IO.FS.Stream) : IO Unit := do
  let line ← h.getLine
  if line.isEmpty then return ()
  let toks := (line.splitOn " ").filter (· ≠ "") |>.map (fun s => s.trimAscii.toString) |>.filter (· ≠ "")
  let (out, _) := handle.run { toks := toks.toArray }
  IO.println out
  loop h

def main : IO Unit := do
  loop (← IO.getStdin)
