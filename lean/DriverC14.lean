/-
  Line-protocol driver of the result state machine (QV/Model/ResultSM.lean) for property C14.
  One history per input line (whitespace separated tokens), one answer line per history.
  Run with `lake env lean --run DriverC14.lean`.

    H <kind 0|1|2> <legacy 0|1> <pre> <nregs> w… <nops> op…
      op:  E inp nshots <n> d…            circuit(input[inp], nshots), answers of sample_shots
           S r reg <n> d… <m> p…          results[r].samples(registers=reg)
           F r reg <n> d…                 results[r].frequencies(registers=reg)
           P r                            results[r].probabilities()
           T r                            results[r].state()
    answer: observables separated by " | ", each followed by " u=<random answers consumed>"
    A j <same as H>   answer of the sub-history of result j run alone (aloneFrom j 0)
    L <same as H>     `circuit._final_state` after the history: index of the result, or "-"

  scheduler model of the parallel helpers (QV/Model/Parallel.lean), parameters and states are
  naturals, the "state" of a job is the log [input…, parameter read by gate 0, gate 1, …]:
    PX <np> p… <ngates> <nstates> {<len> v…} <nsched> s…                 parallel_execution
    PC <nheap> {<np> p…} <njobs> {addr ngates} <nstates> {<len> v…} <nsched> s…
                                                                         parallel_circuits_execution
    PP <np> p… <ngates> <nslots> slot… <nsets> {<len> v…} <ninput> v… <nsched> s…
                                                                         parallel_parametrized_execution
    PS <same as PP>   the same helper without the deep copy
    PT <njobs> {<len> b…} <nsched> s…   the global generator: per job the positions it was given,
                                         then the same for the one-worker schedule
    answer: "J <jobs> # R <results under the schedule> # Q <results of the sequential loop>
             # X <closed form seqResult> # H <heap after the schedule> # D=<disciplined> C=<complete>"

  gate-level measurement result (QV/Model/GateBinding.lean):
    G <rebind 0|1> <addRepoints 0|1> <nops> op…   (rebind 2|3 = 0|1 without the reset)     op: P plain execution | Q execution with a
        Circuit as initial state | M m.samples() | R e  results[e].samples()
    answer: "C e" | "r e" (rows of execution e) | "raises" | "none" | "X", separated by " | "
-/
import QV.Model.ResultSM
import QV.Model.Parallel
import QV.Model.GateBinding
open QV.RSM

structure Rd where
  toks : Array String
  pos : Nat := 0

abbrev P := StateM Rd

def nextTok : P String := do
  let s ← get
  set { s with pos := s.pos + 1 }
  pure (s.toks.getD s.pos "")

def nextNat : P Nat := do
  let t ← nextTok
  pure (t.toNat?.getD 0)

def nextNats (k : Nat) : P (List Nat) := do
  let mut out := []
  for _ in [0:k] do
    out := (← nextNat) :: out
  pure out.reverse

def nextNatList : P (List Nat) := do
  let k ← nextNat
  nextNats k

def nextBool : P Bool := do
  pure ((← nextNat) != 0)

def nextOp : P Op := do
  let t ← nextTok
  match t with
  | "E" =>
    let inp ← nextNat
    let n ← nextNat
    let ds ← nextNatList
    pure (.exec inp n ds)
  | "S" =>
    let r ← nextNat
    let reg ← nextBool
    let d ← nextNatList
    let p ← nextNatList
    pure (.samples r reg d p)
  | "F" =>
    let r ← nextNat
    let reg ← nextBool
    let d ← nextNatList
    pure (.freqs r reg d)
  | "P" => pure (.probs (← nextNat))
  | _ => pure (.state (← nextNat))

def nextHistory : P (Cfg × List Op) := do
  let kind ← nextNat
  let legacy ← nextBool
  let pre ← nextNat
  let ws ← nextNatList
  let nops ← nextNat
  let mut ops := []
  for _ in [0:nops] do
    ops := (← nextOp) :: ops
  let k := match kind with
    | 0 => Kind.plain
    | 1 => Kind.repDM
    | _ => Kind.repSV
  pure ({ kind := k, widths := ws, pre := pre, legacy := legacy }, ops.reverse)

def nats (l : List Nat) : String := " ".intercalate (l.map toString)

def natss (l : List (List Nat)) : String := " ; ".intercalate (l.map nats)

def showOut : Out → String
  | .invalid => "X"
  | .created => "C"
  | .table t => "t " ++ nats t
  | .regTables t => "rt " ++ natss t
  | .hist h => "h " ++ nats h
  | .regHists h => "rh " ++ natss h
  | .owner i => "o " ++ toString i
  | .histProbs h n => "hp " ++ toString n ++ " " ++ nats h

def showObs (l : List Obs) : String :=
  " | ".intercalate (l.map fun o => showOut o.1 ++ " u=" ++ toString o.2)

/-! ### parallel helpers -/

open QV.Par in
def optNat : Option Nat → String
  | none => "-"
  | some n => toString n

open QV.Par in
def showJobs (jobs : List (Job Nat (List Nat))) : String :=
  " ".intercalate (jobs.map fun j =>
    toString j.circ ++ "/" ++ optNat j.copyFrom ++ "/" ++ toString j.ngates ++ "/" ++
      (if j.ownInput then "1" else "0") ++ "/" ++
      ",".intercalate (j.set.map fun w => toString w.1 ++ ":" ++ toString w.2))

def showRes : Option (List Nat) → String
  | none => "-"
  | some l => "r " ++ nats l

open QV.Par in
def showHeap (h : List (Circ Nat)) : String :=
  " ; ".intercalate (h.map fun c => nats c.params ++ " / " ++ optNat c.resetBy ++ " / " ++ optNat c.final)

open QV.Par in
def parAnswer (heap : List (Circ Nat)) (jobs : List (Job Nat (List Nat))) (sched : List Nat) : String :=
  let σ := run logApply jobs (init heap jobs) sched
  let q := run logApply jobs (init heap jobs) (seqSched jobs)
  "J " ++ showJobs jobs ++
  " # R " ++ " | ".intercalate ((results jobs σ).map showRes) ++
  " # Q " ++ " | ".intercalate ((results jobs q).map showRes) ++
  " # X " ++ " | ".intercalate (jobs.map fun j => showRes (some (seqResult logApply heap j))) ++
  " # H " ++ showHeap σ.heap ++
  " # D=" ++ (if disciplinedB jobs then "1" else "0") ++ " C=" ++ (if completeB jobs sched then "1" else "0")

def nextLists : P (List (List Nat)) := do
  let k ← nextNat
  let mut out := []
  for _ in [0:k] do
    out := (← nextNatList) :: out
  pure out.reverse

def nextPairs : P (List (Nat × Nat)) := do
  let k ← nextNat
  let mut out := []
  for _ in [0:k] do
    let a ← nextNat
    let b ← nextNat
    out := (a, b) :: out
  pure out.reverse

open QV.Par in
def parLine (t : String) : P String := do
  match t with
  | "PT" =>
    let progs ← nextLists
    let sched ← nextNatList
    let pb := progs.map fun p => p.map (· != 0)
    pure (natss (tapeRun pb sched).got ++ " # " ++ natss (tapeRun pb (tapeSeq pb)).got ++ " # " ++
      toString (tapeRun pb sched).cursor)
  | "PX" =>
    let ps ← nextNatList
    let ng ← nextNat
    let states ← nextLists
    let sched ← nextNatList
    pure (parAnswer [{ params := ps }] (parExecution ng states) sched)
  | "PC" =>
    let heap ← nextLists
    let addrs ← nextPairs
    let states ← nextLists
    let sched ← nextNatList
    pure (parAnswer (heap.map fun ps => { params := ps }) (parCircuits addrs states []) sched)
  | _ =>
    let ps ← nextNatList
    let ng ← nextNat
    let slots ← nextNatList
    let sets ← nextLists
    let input ← nextNatList
    let sched ← nextNatList
    if t == "PP" then
      pure (parAnswer (paramHeap { params := ps } sets.length) (parParametrized ng slots sets input) sched)
    else
      pure (parAnswer [{ params := ps }] (parParametrizedShared ng slots sets input) sched)

def gbAnswer : P String := do
  let rbn ← nextNat
  let rb := rbn % 2 == 1
  let rs := rbn < 2
  let ar ← nextBool
  let n ← nextNat
  let mut ops : List QV.GB.Op := []
  for _ in [0:n] do
    let t ← nextTok
    match t with
    | "P" => ops := .plain :: ops
    | "Q" => ops := .prep :: ops
    | "M" => ops := .readGate :: ops
    | _ => ops := .readRes (← nextNat) :: ops
  let out := QV.GB.run { rebind := rb, addRepoints := ar, resets := rs } ops.reverse
  pure (" | ".intercalate (out.map fun a =>
    match a with
    | .created e => "C " ++ toString e
    | .rows e => "r " ++ toString e
    | .raises => "raises"
    | .nothing => "none"
    | .invalid => "X"))

def answer (line : String) : String :=
  let toks := (line.splitOn " ").filter (· ≠ "") |>.toArray
  let go : P String := do
    let t ← nextTok
    match t with
    | "H" =>
      let (c, ops) ← nextHistory
      pure (showObs (run c ops))
    | "A" =>
      let j ← nextNat
      let (c, ops) ← nextHistory
      pure (showObs (run c (aloneFrom j 0 ops)))
    | "L" =>
      let (c, ops) ← nextHistory
      pure (optNat (stateAfter c (St.init c) ops).final)
    | "PX" | "PC" | "PP" | "PS" | "PT" => parLine t
    | "G" => gbAnswer
    | _ => pure "?"
  (go.run { toks := toks }).1

partial def loop (h : IO.FS.Stream) (out : IO.FS.Stream) : IO Unit := do
  let line ← h.getLine
  if line.isEmpty then return
  out.putStrLn (answer (line.trimAscii.toString))
  loop h out

def main : IO Unit := do
  let stdin ← IO.getStdin
  let stdout ← IO.getStdout
  loop stdin stdout
