/-
  Line-protocol driver of the result state machine (QV/Model/ResultSM.lean) for property C14.
  One history per input line (whitespace separated tokens), one answer line per history.
  Run with `lake env lean --run DriverC14.lean`.

    H <kind 0|1|2> <legacy 0|1> <pre> <nregs> w… <nops> op…
      op:  E inp nshots <n> d…            circuit(input[inp], nshots), answers of sample_shots
           S r reg <n> d… <m> p…          results[r].samples(registers=reg)
           F r reg <n> d…                 results[r].frequencies(registers=reg)
           P r                            results[r].probabilities()
           T r                            results[r].state()
    answer: observables separated by " | ", each followed by " u=<random answers consumed>"
    A j <same as H>   answer of the sub-history of result j run alone (aloneFrom j 0)
-/
import QV.Model.ResultSM
open QV.RSM

structure Rd where
  toks : Array String
  pos : Nat := 0

abbrev P := StateM Rd

def nextTok : P String := do
  let s ← get
  set { s with pos := s.pos + 1 }
  pure (s.toks.getD s.pos "")

def nextNat : P Nat := do
  let t ← nextTok
  pure (t.toNat?.getD 0)

def nextNats (k : Nat) : P (List Nat) := do
  let mut out := []
  for _ in [0:k] do
    out := (← nextNat) :: out
  pure out.reverse

def nextNatList : P (List Nat) := do
  let k ← nextNat
  nextNats k

def nextBool : P Bool := do
  pure ((← nextNat) != 0)

def nextOp : P Op := do
  let t ← nextTok
  match t with
  | "E" =>
    let inp ← nextNat
    let n ← nextNat
    let ds ← nextNatList
    pure (.exec inp n ds)
  | "S" =>
    let r ← nextNat
    let reg ← nextBool
    let d ← nextNatList
    let p ← nextNatList
    pure (.samples r reg d p)
  | "F" =>
    let r ← nextNat
    let reg ← nextBool
    let d ← nextNatList
    pure (.freqs r reg d)
  | "P" => pure (.probs (← nextNat))
  | _ => pure (.state (← nextNat))

def nextHistory : P (Cfg × List Op) := do
  let kind ← nextNat
  let legacy ← nextBool
  let pre ← nextNat
  let ws ← nextNatList
  let nops ← nextNat
  let mut ops := []
  for _ in [0:nops] do
    ops := (← nextOp) :: ops
  let k := match kind with
    | 0 => Kind.plain
    | 1 => Kind.repDM
    | _ => Kind.repSV
  pure ({ kind := k, widths := ws, pre := pre, legacy := legacy }, ops.reverse)

def nats (l : List Nat) : String := " ".intercalate (l.map toString)

def natss (l : List (List Nat)) : String := " ; ".intercalate (l.map nats)

def showOut : Out → String
  | .invalid => "X"
  | .created => "C"
  | .table t => "t " ++ nats t
  | .regTables t => "rt " ++ natss t
  | .hist h => "h " ++ nats h
  | .regHists h => "rh " ++ natss h
  | .owner i => "o " ++ toString i
  | .histProbs h n => "hp " ++ toString n ++ " " ++ nats h

def showObs (l : List Obs) : String :=
  " | ".intercalate (l.map fun o => showOut o.1 ++ " u=" ++ toString o.2)

def answer (line : String) : String :=
  let toks := (line.splitOn " ").filter (· ≠ "") |>.toArray
  let go : P String := do
    let t ← nextTok
    match t with
    | "H" =>
      let (c, ops) ← nextHistory
      pure (showObs (run c ops))
    | "A" =>
      let j ← nextNat
      let (c, ops) ← nextHistory
      pure (showObs (run c (aloneFrom j 0 ops)))
    | _ => pure "?"
  (go.run { toks := toks }).1

partial def loop (h : IO.FS.Stream) (out : IO.FS.Stream) : IO Unit := do
  let line ← h.getLine
  if line.isEmpty then return
  out.putStrLn (answer (line.trimAscii.toString))
  loop h out

def main : IO Unit := do
  let stdin ← IO.getStdin
  let stdout ← IO.getStdout
  loop stdin stdout
