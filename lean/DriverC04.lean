/-
  Line-protocol driver of the channel model (QV/Model/Channels.lean).
  One case per input line, one answer line.  Two scalar modes:
    G…  Gaussian integers, tokens `re im` (exact comparison with the real code)
    F…  complex doubles, tokens are the IEEE bit patterns of re and im as decimal UInt64
        (exact transport; comparison with tolerance on the Python side)
  Run with `lake env lean --run DriverC04.lean`.
-/
import QV.Core.GI
import QV.Core.CFloat
import QV.Model.Table
import QV.Model.Sim
import QV.Model.Channels
import QV.Model.Superop
open QV

instance : Zero CF := ⟨CF.zero⟩
instance : One CF := ⟨CF.one⟩

structure Rd where
  toks : Array String
  pos : Nat := 0

abbrev P := StateM Rd

def nextTok : P String := do
  let s ← get
  set { s with pos := s.pos + 1 }
  pure (s.toks.getD s.pos "")

def nextInt : P Int := do
  let t ← nextTok
  pure (t.toInt?.getD 0)

def nextNat : P Nat := do
  let t ← nextInt
  pure t.toNat

def nextNats (k : Nat) : P (List Nat) := do
  let mut out := []
  for _ in [0:k] do
    out := (← nextNat) :: out
  pure out.reverse

def nextGI : P GI := do
  let a ← nextInt
  let b ← nextInt
  pure ⟨a, b⟩

def nextFloat : P Float := do
  let t ← nextNat
  pure (Float.ofBits t.toUInt64)

def nextCF : P CF := do
  let a ← nextFloat
  let b ← nextFloat
  pure ⟨a, b⟩

/-- scalar interface of a mode. -/
structure Sc (α : Type) where
  rd   : P α
  sh   : α → String
  conj : α → α
  I    : α

def scG : Sc GI := { rd := nextGI, sh := GI.toStr, conj := GI.conj, I := ⟨0, 1⟩ }
def scF : Sc CF :=
  { rd := nextCF, sh := fun a => s!"{a.re.toBits} {a.im.toBits}", conj := CF.conj, I := ⟨0.0, 1.0⟩ }

section generic
variable {α : Type} [Zero α] [One α] [Add α] [Sub α] [Neg α] [Mul α] [Inhabited α]

def rdMany (sc : Sc α) (k : Nat) : P (Array α) := do
  let mut out := Array.mkEmpty k
  for _ in [0:k] do
    out := out.push (← sc.rd)
  pure out

/-- gate: k t1..tk then 2^k*2^k entries (row major); channels have no controls. -/
def rdGate (sc : Sc α) : P (MGate α) := do
  let k ← nextNat
  let ts ← nextNats k
  let d := 2 ^ k
  let m ← rdMany sc (d * d)
  pure { mat := fun i j => m.getD (i * d + j) 0, targets := ts }

def rdTerms (sc : Sc α) : P (List (α × MGate α)) := do
  let m ← nextNat
  let mut out := []
  for _ in [0:m] do
    let c ← sc.rd
    let g ← rdGate sc
    out := (c, g) :: out
  pure out.reverse

def rdRho (sc : Sc α) (n : Nat) : P (DM α) := do
  let a ← rdMany sc (2 ^ n * 2 ^ n)
  pure (ofTable2 n a)

def shDM (sc : Sc α) (n : Nat) (ρ : DM α) : String :=
  " ".intercalate ((tableOf2 n ρ).toList.map sc.sh)

def shMat (sc : Sc α) (d : Nat) (A : Nat → Nat → α) : String :=
  " ".intercalate ((List.range (d * d)).map fun t => sc.sh (A (t / d) (t % d)))

/-- materialise after every term so closures stay shallow. -/
def krausTab (sc : Sc α) (n : Nat) (c0 : α) (terms : List (α × MGate α)) (ρ : DM α) : Array α :=
  let start : Array α := tableOf2 n (fun x y => c0 * ρ x y)
  terms.foldl (fun (acc : Array α) cg =>
    let r1 := tableOf2 n (applyRight sc.conj cg.2 ρ)
    let r2 := tableOf2 n (applyLeft cg.2 (ofTable2 n r1))
    Array.ofFn (n := acc.size) fun i => acc[i] + cg.1 * r2.getD i.val 0) start

def chanTab (sc : Sc α) (n : Nat) (ch : Chan α) (ρ : DM α) : Array α :=
  krausTab sc n (1 - ch.csum) (ch.coeffs.zip ch.gates) ρ

def shArr (sc : Sc α) (a : Array α) : String :=
  " ".intercalate (a.toList.map sc.sh)

/-- commands shared by both modes. -/
def handleGeneric (sc : Sc α) (cmd : String) : P String := do
  match cmd with
  | "KRAUS" =>
    let n ← nextNat
    let c0 ← sc.rd
    let terms ← rdTerms sc
    let ρ ← rdRho sc n
    -- the model function itself on small inputs, the materialising twin on larger ones
    if n ≤ 2 then pure (shDM sc n (krausFold sc.conj c0 terms ρ))
    else pure (shArr sc (krausTab sc n c0 terms ρ))
  | "RESET" =>
    let n ← nextNat
    let q ← nextNat
    let c0 ← sc.rd
    let p0 ← sc.rd
    let p1 ← sc.rd
    let ρ ← rdRho sc n
    pure (shDM sc n (resetFast sc.conj c0 p0 p1 q ρ))
  | "DEPOL" =>
    let n ← nextNat
    let k ← nextNat
    let qs ← nextNats k
    let c0 ← sc.rd
    let w ← sc.rd
    let ρ ← rdRho sc n
    pure (shDM sc n (depolFast c0 w qs ρ))
  | "THERMHI" =>
    let n ← nextNat
    let q ← nextNat
    let c0 ← sc.rd
    let p0 ← sc.rd
    let p1 ← sc.rd
    let pz ← sc.rd
    let ρ ← rdRho sc n
    pure (shDM sc n (thermalFastHi sc.conj c0 p0 p1 pz q ρ))
  | "THERMLO" =>
    let n ← nextNat
    let q ← nextNat
    let m ← rdMany sc 16
    let ρ ← rdRho sc n
    pure (shDM sc n (thermalFastLo n (fun i j => m.getD (i * 4 + j) 0) q ρ))
  | "PAULI" =>
    -- n k qs one m [codes(k) p]*m rho : PauliNoiseChannel through its constructor model
    -- (`one` is the scaled unit: 1 in float mode, the common denominator in integer mode)
    let n ← nextNat
    let k ← nextNat
    let qs ← nextNats k
    let one ← sc.rd
    let m ← nextNat
    let mut ops := []
    for _ in [0:m] do
      let cs ← nextNats k
      let p ← sc.rd
      ops := (cs, p) :: ops
    let ρ ← rdRho sc n
    let ch := pauliChan sc.I qs ops.reverse
    pure (shArr sc (krausTab sc n (one - ch.csum) (ch.coeffs.zip ch.gates) ρ))
  | "DEPOLC" =>
    -- n k qs one u rho : DepolarizingChannel's Pauli operators (u = lam / 4^k) — generic path
    let n ← nextNat
    let k ← nextNat
    let qs ← nextNats k
    let one ← sc.rd
    let u ← sc.rd
    let ρ ← rdRho sc n
    let ch := depolChan sc.I u qs
    pure (shArr sc (krausTab sc n (one - ch.csum) (ch.coeffs.zip ch.gates) ρ))
  | "VIEW" =>
    -- kind(0 choi,1 liouville,2 pauli-liouville) n col addId c0 terms
    let kind ← nextNat
    let n ← nextNat
    let col ← nextNat
    let addId ← nextNat
    let c0 ← sc.rd
    let terms ← rdTerms sc
    let D := 2 ^ n
    let ch : Chan α := { coeffs := terms.map (·.1), gates := terms.map (·.2), csum := 0 }
    -- materialise the full matrices once
    let ts := (choiTerms n ch (addId == 1) c0).map fun t =>
      let a : Array α := Array.ofFn (n := D * D) fun i => t.2 (i.val / D) (i.val % D)
      (t.1, fun i j => a.getD (i * D + j) 0)
    if kind == 0 then pure (shMat sc (D * D) (choiOf sc.conj D (col == 1) ts))
    else
      let L := liouvilleOf sc.conj D (col == 1) ts
      if kind == 1 then pure (shMat sc (D * D) L)
      else
        let la : Array α := Array.ofFn (n := D * D * (D * D)) fun i => L (i.val / (D * D)) (i.val % (D * D))
        pure (shMat sc (D * D) (pauliLiouvilleOf sc.conj sc.I n (fun i j => la.getD (i * (D * D) + j) 0)))
  | "LEXEC" =>
    -- n col addId c0 terms rho : the left-hand side of T04_liouville_executes on the model,
    -- `liouvilleOf (choiTerms n ch addId c0) · vec(ρ)` un-vectorised (entry (i,j) = position
    -- `vecIdx i j`), with the index functions of QV/Model/Superop.lean
    let n ← nextNat
    let col ← nextNat
    let addId ← nextNat
    let c0 ← sc.rd
    let terms ← rdTerms sc
    let ρ ← rdRho sc n
    let D := 2 ^ n
    let o : QV.Superop.Order := if col == 1 then .column else .row
    let ch : Chan α := { coeffs := terms.map (·.1), gates := terms.map (·.2), csum := 0 }
    let ts := (choiTerms n ch (addId == 1) c0).map fun t =>
      let a : Array α := Array.ofFn (n := D * D) fun i => t.2 (i.val / D) (i.val % D)
      (t.1, fun i j => a.getD (i * D + j) 0)
    let L := liouvilleOf sc.conj D (col == 1) ts
    let rm : Array α := Array.ofFn (n := D * D) fun i => ρ (Lab.ofIndex n (i.val / D)) (Lab.ofIndex n (i.val % D))
    let v : Array α := Array.ofFn (n := D * D) fun k =>
      QV.Superop.vectorization o D n (fun a b => rm.getD (a * D + b) 0) k.val
    let w := QV.Superop.matVec (D * D) L (fun k => v.getD k 0)
    pure (shMat sc D (fun i j => w (QV.Superop.vecIdx o D n i j)))
  | c => pure s!"bad-op {c}"

end generic

def cf (x : Float) : CF := ⟨x, 0.0⟩

/-- float-only commands: the constructors from the user's parameters. -/
def handleF (cmd : String) : P String := do
  let sc := scF
  match cmd with
  | "AD" | "PD" =>
    let n ← nextNat
    let q ← nextNat
    let g ← nextFloat
    let ρ ← rdRho sc n
    let s := cf (Float.sqrt (1.0 - g))
    let a := cf (Float.sqrt g)
    let ch := if cmd == "AD" then ampDampChan s a q else phaseDampChan s a q
    pure (shArr sc (chanTab sc n ch ρ))
  | "RESETC" | "RESETL" =>
    let n ← nextNat
    let q ← nextNat
    let p0 ← nextFloat
    let p1 ← nextFloat
    let ρ ← rdRho sc n
    if cmd == "RESETC" then
      let ch := resetChan (cf (Float.sqrt p0)) (cf (Float.sqrt p1)) (cf (Float.sqrt (Float.abs (1.0 - p0 - p1))))
        (p0 + p1 < 1.0) q
      pure (shArr sc (chanTab sc n ch ρ))
    else
      pure (shDM sc n (resetFast sc.conj (cf (1.0 - p0 - p1)) (cf p0) (cf p1) q ρ))
  | "THERMC" | "THERML" =>
    -- n q t1 t2 time eta rho
    let n ← nextNat
    let q ← nextNat
    let t1 ← nextFloat
    let t2 ← nextFloat
    let tm ← nextFloat
    let eta ← nextFloat
    let ρ ← rdRho sc n
    let preset := 1.0 - Float.exp (-tm / t1)
    let p0 := preset * (1.0 - eta)
    let p1 := preset * eta
    if t1 < t2 then
      let e := Float.exp (-tm / t2)
      if cmd == "THERML" then
        -- the documented closed form
        pure (shDM sc n (thermalFastLo n (thermalMat (cf p0) (cf p1) (cf e)) q ρ))
      else
        -- Kraus operators: normalised eigen-decomposition of the Choi block
        let k := Float.sqrt (4.0 * e * e + (p0 - p1) * (p0 - p1))
        let ev1 := 1.0 - (p0 + p1 + k) / 2.0
        let ev1 := if ev1 < 0.0 then 0.0 else ev1
        let el1 := (p0 - p1 - k) / (2.0 * e)
        let ev2 := 1.0 - (p0 + p1 - k) / 2.0
        let ev2 := if ev2 < 0.0 then 0.0 else ev2
        let el2 := (p0 - p1 + k) / (2.0 * e)
        let s1 := Float.sqrt (ev1 / (1.0 + el1 * el1))
        let s2 := Float.sqrt (ev2 / (1.0 + el2 * el2))
        let ch := thermalChanLo (cf (Float.sqrt p0)) (cf (Float.sqrt p1)) (cf (s1 * el1)) (cf s1) (cf (s2 * el2)) (cf s2) q
        pure (shArr sc (chanTab sc n ch ρ))
    else
      let pz := (Float.exp (-tm / t1) - Float.exp (-tm / t2)) / 2.0
      if cmd == "THERML" then
        pure (shDM sc n (thermalFastHi sc.conj (cf (1.0 - p0 - p1)) (cf p0) (cf p1) (cf pz) q ρ))
      else
        let ch := thermalChanHi (cf (Float.sqrt p0)) (cf (Float.sqrt p1)) (cf (Float.sqrt pz))
          (cf (Float.sqrt (1.0 - p0 - p1 - pz))) q
        pure (shArr sc (chanTab sc n ch ρ))
  | "DEPOLL" =>
    -- n k qs lam rho : closed form from lam
    let n ← nextNat
    let k ← nextNat
    let qs ← nextNats k
    let lam ← nextFloat
    let ρ ← rdRho sc n
    pure (shDM sc n (depolFast (cf (1.0 - lam)) (cf (lam / Float.ofNat (2 ^ k))) qs ρ))
  | "READOUT" =>
    -- n k qs P(d*d) rho
    let n ← nextNat
    let k ← nextNat
    let qs ← nextNats k
    let d := 2 ^ k
    let mut pm : Array Float := #[]
    for _ in [0:d * d] do
      pm := pm.push (← nextFloat)
    let ρ ← rdRho sc n
    let ch := readoutChan (fun a b => cf (Float.sqrt (pm.getD (a * d + b) 0.0))) d qs
    pure (shArr sc (chanTab sc n ch ρ))
  | c => handleGeneric sc c

def handle : P String := do
  let cmd ← nextTok
  if cmd == "" then pure ""
  else if cmd.startsWith "G" then handleGeneric scG (cmd.drop 1).toString
  else if cmd.startsWith "F" then handleF (cmd.drop 1).toString
  else pure s!"bad-op {cmd}"

partial def loop (h : IO.FS.Stream) : IO Unit := do
  let line ← h.getLine
  if line.isEmpty then return ()
  let toks := (line.splitOn " ").filter (· ≠ "") |>.map (fun s => s.trimAscii.toString) |>.filter (· ≠ "")
  let (out, _) := handle.run { toks := toks.toArray }
  IO.println out
  loop h

def main : IO Unit := do
  loop (← IO.getStdin)
