/-
  Line-protocol driver of the circuit-queue model (QV/Model/CircuitQueue.lean) for property C05.
  One case per input line (whitespace separated tokens), one canonical answer per line.
  Run with `lake env lean --run DriverC05.lean`.

  line   := tables op
  tables := ndg (k k')*  ndfl (k train kw)*  nrot (code ker train kw)*
  flag   := 0 (none) | 1 (False) | 2 (True)
  gate   := uid ker nt t* nc c* cb train kw
  entry  := G gate | M meas | F nq q* nm gate*
  meas   := nt t* name kwname collapse kwcollapse nb b* nr gate*        (name "-" = None)
  queue  := n entry*
  op     := INV repaired rewrite queue | CPS rewrite queue | CPD rewrite queue
          | ADD rewrite kw1 kw2 queue queue | ONQ rewrite nσ σ* queue(big) queue
          | BLD rewrite nsteps (P entry | B nt t* kwname kwcollapse nb b*)*
-/
import QV.Model.CircuitQueue
open QV QV.CQ

structure Rd where
  toks : Array String
  pos : Nat := 0

abbrev P := StateM Rd

def nextTok : P String := do
  let s ← get
  set { s with pos := s.pos + 1 }
  pure (s.toks.getD s.pos "")

def nextNat : P Nat := do
  let t ← nextTok
  pure (t.toNat?.getD 0)

def nextNats (k : Nat) : P (List Nat) := do
  let mut out := []
  for _ in [0:k] do
    out := (← nextNat) :: out
  pure out.reverse

def nextNatList : P (List Nat) := do
  let k ← nextNat
  nextNats k

def nextFlag : P (Option Bool) := do
  let k ← nextNat
  pure (match k with | 0 => none | 1 => some false | _ => some true)

def nextName : P (Option String) := do
  let t ← nextTok
  pure (if t == "-" then none else some t)

def nextGate : P Gt := do
  let uid ← nextNat
  let ker ← nextNat
  let ts ← nextNatList
  let cs ← nextNatList
  let cb ← nextNat
  let tr ← nextFlag
  let kw ← nextFlag
  pure { uid := uid, ker := ker, targets := ts, controls := cs, cb := cb == 1, train := tr, kwTrain := kw }

def nextGates (k : Nat) : P (List Gt) := do
  let mut out := []
  for _ in [0:k] do
    out := (← nextGate) :: out
  pure out.reverse

def nextMeas : P (Ms String) := do
  let ts ← nextNatList
  let nm ← nextName
  let kn ← nextName
  let c ← nextNat
  let kc ← nextNat
  let kb ← nextNatList
  let nr ← nextNat
  let rot ← nextGates nr
  pure { targets := ts, name := nm, kwName := kn, collapse := c == 1, kwCollapse := kc == 1,
         kwBasis := kb, rot := rot }

def nextEntry : P (Entry String) := do
  let t ← nextTok
  match t with
  | "G" => pure (.gate (← nextGate))
  | "M" => pure (.meas (← nextMeas))
  | _ =>
    let qs ← nextNatList
    let nm ← nextNat
    pure (.fused qs (← nextGates nm))

def nextQueue : P (List (Entry String)) := do
  let n ← nextNat
  let mut out := []
  for _ in [0:n] do
    out := (← nextEntry) :: out
  pure out.reverse

def nextStep : P (Step String) := do
  let t ← nextTok
  match t with
  | "P" => do
    let e ← nextEntry
    pure (Step.same e)
  | _ => do
    let ts ← nextNatList
    let kn ← nextName
    let kc ← nextNat
    let kb ← nextNatList
    pure (.build ts kn (kc == 1) kb)

def dfltName (k : Nat) : String := "register" ++ toString k

structure Tables where
  dg : Nat → Nat
  dfl : Nat → Option Bool × Option Bool
  rotOf : Nat → Option Tmpl

def nextTables : P Tables := do
  let ndg ← nextNat
  let mut dgl : List (Nat × Nat) := []
  for _ in [0:ndg] do
    let a ← nextNat
    let b ← nextNat
    dgl := (a, b) :: dgl
  let ndfl ← nextNat
  let mut dfll : List (Nat × (Option Bool × Option Bool)) := []
  for _ in [0:ndfl] do
    let a ← nextNat
    let t ← nextFlag
    let k ← nextFlag
    dfll := (a, (t, k)) :: dfll
  let nrot ← nextNat
  let mut rotl : List (Nat × Tmpl) := []
  for _ in [0:nrot] do
    let a ← nextNat
    let ker ← nextNat
    let t ← nextFlag
    let k ← nextFlag
    rotl := (a, { ker := ker, train := t, kwTrain := k }) :: rotl
  pure { dg := fun k => ((dgl.find? fun p => p.1 == k).map (·.2)).getD k,
         dfl := fun k => ((dfll.find? fun p => p.1 == k).map (·.2)).getD (none, none),
         rotOf := fun c => (rotl.find? fun p => p.1 == c).map (·.2) }

def showNats (l : List Nat) : String := ",".intercalate (l.map toString)
def showFlag : Option Bool → String
  | none => "-"
  | some false => "F"
  | some true => "T"
def showName : Option String → String
  | none => "-"
  | some x => x
def showBool (b : Bool) : String := if b then "1" else "0"

/-- ids ≥ 1000 are objects of the source circuits, smaller ones were created by the operation. -/
def showUid (u : Nat) : String := if u ≥ 1000 then toString u else "0"

def showGate (g : Gt) : String :=
  s!"{showUid g.uid}:{g.ker}:{showNats g.targets}:{showNats g.controls}:{showBool g.cb}:{showFlag g.train}:{showFlag g.kwTrain}"

def showEntry (s : St String) (i : Nat) : Entry String → String
  | .gate g => "G" ++ showGate g
  | .meas m =>
    s!"M{showNats m.targets}:{showName m.name}:{showName m.kwName}:{showBool (s.bk.coll i)}:{showBool m.kwCollapse}:{showNats m.kwBasis}:[{" ".intercalate (m.rot.map showGate)}]"
  | .fused qs ms => s!"F{showNats qs}:[{" ".intercalate (ms.map showGate)}]"

def showSt (s : St String) : String :=
  let es := (List.range s.queue.length).map fun i =>
    match s.queue[i]? with
    | some e => showEntry s i e
    | none => "?"
  let tuples := (CAdd.measurementTuples s.bk).map fun p => s!"{showName p.1}={showNats p.2}"
  " ".intercalate es ++ " | " ++ " ".intercalate tuples ++ " | " ++ showBool s.bk.hasCollapse

def showRes : Option (St String) → String
  | none => "NONE"
  | some s => showSt s

def runLine : P String := do
  let tb ← nextTables
  let op ← nextTok
  match op with
  | "INV" => do
    let rep ← nextNat
    let rw ← nextNat
    let q ← nextQueue
    pure (showRes (invert (rep == 1) (rw == 1) dfltName tb.rotOf tb.dg tb.dfl q))
  | "CPS" => do
    let rw ← nextNat
    let q ← nextQueue
    pure (showRes (copyShallow (rw == 1) dfltName tb.rotOf q))
  | "CPD" => do
    let rw ← nextNat
    let q ← nextQueue
    pure (showRes (copyDeep (rw == 1) dfltName tb.rotOf q))
  | "ADD" => do
    let rw ← nextNat
    let k1 ← nextTok
    let k2 ← nextTok
    let q1 ← nextQueue
    let q2 ← nextQueue
    let c1 : Circ String String := { kw := k1, st := { queue := q1 } }
    let c2 : Circ String String := { kw := k2, st := { queue := q2 } }
    pure (match Circ.add (rw == 1) dfltName tb.rotOf c1 c2 with
      | none => "NONE"
      | some c => c.kw ++ " " ++ showSt c.st)
  | "ONQ" => do
    let rw ← nextNat
    let sg ← nextNatList
    let bigq ← nextQueue
    let q ← nextQueue
    let σ : Nat → Nat := fun i => sg.getD i i
    pure (match copyShallow (rw == 1) dfltName tb.rotOf bigq with
      | none => "NONE"
      | some big => showRes (onQubitsInto (rw == 1) dfltName tb.rotOf big σ q))
  | "BLD" => do
    let rw ← nextNat
    let n ← nextNat
    let mut steps : List (Step String) := []
    for _ in [0:n] do
      steps := (← nextStep) :: steps
    pure (showRes (addSteps (rw == 1) dfltName tb.rotOf {} steps.reverse))
  | _ => pure "?"

partial def loop (h : IO.FS.Stream) (out : IO.FS.Stream) : IO Unit := do
  let line ← h.getLine
  if line.isEmpty then return
  let toks := (line.splitOn " ").filter (· ≠ "") |>.map (fun s => s.trimAscii.toString) |>.filter (· ≠ "")
  let (ans, _) := runLine.run { toks := toks.toArray }
  out.putStrLn ans
  loop h out

def main : IO Unit := do
  let stdin ← IO.getStdin
  let stdout ← IO.getStdout
  loop stdin stdout
