/-
  Line-protocol driver for the Hamiltonian model (QV/Model/Hamil.lean), property C15.
  One case per input line, one canonical answer line.  `lake env lean --run DriverC15.lean`.

  form tokens (prefix):  C re im | S id q pauli <8 ints: 2x2 matrix re im row major>
                         | A f g | M f g | P k f | K re im f
  ops:
    FORM n <tree form> <ast form> <psi 2^n>        -> dense(tree) ; denote(ast) psi ; applyGates(ofForm ast) psi ; mulVec(dense tree) psi
    FORMDM n <tree form> <ast form> <rho 4^n>      -> mMul(dense tree) rho ; applyGatesDM(ofForm ast) rho
    TERMS n nm (cre cim nf (S <sym> k | N re im)*)* <psi> <rho>
                                                   -> per term: coef ; factor ids ; targets ; matrix  ... ; constant ; applyGates psi ; applyGatesDM rho ; Σ gate(term) psi + const psi
    EXPAND <ast form>                              -> monomials: coef ; (id pow)*
    SAMPLES n nm <monomials as in TERMS> <tree form> lq q* nk (key bits (lq) count)*  -> symbolicScaled ; denseScaled ; specScaled
    TFIM n h | ONE n <8 ints>                      -> dense builder ; dense(form)
    HEIS n Jx Jy Jz hx hy hz (integers)            -> dense Heisenberg builder ; dense(Heisenberg form)
    CIRC n nt (cre cim nf (I|X|Y|Z q)*)* <psi>       -> per term: rotCount ; measurement layer q:K … ; measuredValue(layer) ; ⟨psi|P psi⟩   … || ‖psi‖²
                                                      (QV/Model/HamilCirc.lean: the basis-rotation step of expectation_from_circuit)
    HIST n ns (N <ast form> | T i | A i j | B i j | M i j | K re im i | PA re im i | PS re im i | RS re im i)* <psi>
                                                   -> per object: constant ; h @ psi   (objects joined by |), once without and
                                                      once with term reuse (joined by ||): the algebra over call histories (QV/Model/HamilAlg.lean)
-/
import QV.Core.GI
import QV.Model.Table
import QV.Model.Sim
import QV.Model.Hamil
import QV.Model.HamilAlg
import QV.Model.HamilCirc
open QV

structure Rd where
  toks : Array String
  pos : Nat := 0

abbrev P := StateM Rd

def nextTok : P String := do
  let s ← get
  set { s with pos := s.pos + 1 }
  pure (s.toks.getD s.pos "")

def nextInt : P Int := do
  let t ← nextTok
  pure (t.toInt?.getD 0)

def nextNat : P Nat := do
  let t ← nextInt
  pure t.toNat

def nextNats (k : Nat) : P (List Nat) := do
  let mut out := []
  for _ in [0:k] do
    out := (← nextNat) :: out
  pure out.reverse

def nextGI : P GI := do
  let a ← nextInt
  let b ← nextInt
  pure ⟨a, b⟩

def nextGIs (k : Nat) : P (Array GI) := do
  let mut out := Array.mkEmpty k
  for _ in [0:k] do
    out := out.push (← nextGI)
  pure out

def showGIs (a : Array GI) : String :=
  " ".intercalate (a.toList.map GI.toStr)



def nextSym : P (PSym GI) := do
  let id ← nextNat
  let q ← nextNat
  let pa ← nextNat
  let m ← nextGIs 4
  pure { mat := fun i j => m.getD (i * 2 + j) 0, q := q, pauli := pa == 1, id := id }

instance : Inhabited (PForm GI) := ⟨.const 0⟩

partial def nextForm : P (PForm GI) := do
  let t ← nextTok
  match t with
  | "C" => pure (.const (← nextGI))
  | "S" => pure (.sym (← nextSym))
  | "A" => do let a ← nextForm; let b ← nextForm; pure (.add a b)
  | "M" => do let a ← nextForm; let b ← nextForm; pure (.mul a b)
  | "P" => do let k ← nextNat; let a ← nextForm; pure (.pow a k)
  | "K" => do let c ← nextGI; let a ← nextForm; pure (.smul c a)
  | _ => pure (.const 0)

/-- `dense` node by node, materialising every intermediate matrix (same node operations
as `QV.dense`; keeps closures shallow). -/
def denseT (n : Nat) : PForm GI → Array GI
  | .const c  => tableOf2 n (mSmul c (mId n))
  | .sym s    => tableOf2 n (fullMatrix n s)
  | .add a b  => tableOf2 n (mAdd (ofTable2 n (denseT n a)) (ofTable2 n (denseT n b)))
  | .mul a b  => tableOf2 n (mMul n (ofTable2 n (denseT n a)) (ofTable2 n (denseT n b)))
  | .pow a k  =>
    let A := denseT n a
    (List.range k).foldl (fun acc _ => tableOf2 n (mMul n (ofTable2 n acc) (ofTable2 n A))) (tableOf2 n (mId n))
  | .smul c a => tableOf2 n (mMul n (mSmul c (mId n)) (ofTable2 n (denseT n a)))

/-- `PForm.denote` node by node on materialised states. -/
def denoteT (n : Nat) : PForm GI → Array GI → Array GI
  | .const c, ψ  => ψ.map (fun v => c * v)
  | .sym s, ψ    => tableOf n (applyGate s.gate (ofTable n ψ))
  | .add a b, ψ  => Array.zipWith (· + ·) (denoteT n a ψ) (denoteT n b ψ)
  | .mul a b, ψ  => denoteT n a (denoteT n b ψ)
  | .pow a k, ψ  => (List.range k).foldl (fun acc _ => denoteT n a acc) ψ
  | .smul c a, ψ => (denoteT n a ψ).map (fun v => c * v)

def termApplyT (n : Nat) (t : STerm GI) (ψ : Array GI) : Array GI :=
  let φ := t.factors.reverse.foldl (fun s f => tableOf n (applyGate f.gate (ofTable n s))) ψ
  φ.map (fun v => t.coef * v)

def termApplyDMT (n : Nat) (t : STerm GI) (ρ : Array GI) : Array GI :=
  let σ := t.factors.reverse.foldl (fun s f => tableOf2 n (applyLeft f.gate (ofTable2 n s))) ρ
  σ.map (fun v => t.coef * v)

def applyGatesT (n : Nat) (h : TermHam GI) (ψ : Array GI) : Array GI :=
  let z : Array GI := ψ.map (fun _ => 0)
  let tot := h.terms.foldl (fun acc t => Array.zipWith (· + ·) acc (termApplyT n t ψ)) z
  Array.zipWith (· + ·) tot (ψ.map (fun v => h.constant * v))

def applyGatesDMT (n : Nat) (h : TermHam GI) (ρ : Array GI) : Array GI :=
  let z : Array GI := ρ.map (fun _ => 0)
  let tot := h.terms.foldl (fun acc t => Array.zipWith (· + ·) acc (termApplyDMT n t ρ)) z
  Array.zipWith (· + ·) tot (ρ.map (fun v => h.constant * v))

def sameSym (a b : PSym GI) : Bool := a.id == b.id

def nextRawFactor : P (RawFactor GI) := do
  let t ← nextTok
  match t with
  | "S" => do let s ← nextSym; let k ← nextNat; pure (.symPow s k)
  | _ => pure (.num (← nextGI))

def nextMonos : P (List (GI × List (RawFactor GI))) := do
  let nm ← nextNat
  let mut ms := []
  for _ in [0:nm] do
    let c ← nextGI
    let nf ← nextNat
    let mut fs := []
    for _ in [0:nf] do
      fs := (← nextRawFactor) :: fs
    ms := (c, fs.reverse) :: ms
  pure ms.reverse

def showNats (l : List Nat) : String := " ".intercalate (l.map toString)

def nextKey (k : Nat) : P (List Bool) := do
  let t ← nextTok
  let cs := t.toList
  pure ((List.range k).map fun i => cs.getD i '0' == '1')

def nextStep : P (AStep GI) := do
  let t ← nextTok
  match t with
  | "N" => pure (.new (← nextForm))
  | "T" => pure (.touch (← nextNat))
  | "A" => do let i ← nextNat; let j ← nextNat; pure (.add i j)
  | "B" => do let i ← nextNat; let j ← nextNat; pure (.sub i j)
  | "M" => do let i ← nextNat; let j ← nextNat; pure (.matmul i j)
  | "K" => do let c ← nextGI; let i ← nextNat; pure (.smul c i)
  | "PA" => do let c ← nextGI; let i ← nextNat; pure (.sadd c i)
  | "PS" => do let c ← nextGI; let i ← nextNat; pure (.ssub c i)
  | "RS" => do let c ← nextGI; let i ← nextNat; pure (.rsub c i)
  | _ => pure (.touch 1000000)

def showStore (n : Nat) (st : List (SObj GI)) (ψ : Array GI) : String :=
  " | ".intercalate (st.map fun o =>
    let o' := o.touch sameSym
    s!"{o'.constant.toStr} ; {showGIs (applyGatesT n o'.termHam ψ)}")

def giI : GI := ⟨0, 1⟩

def kindOf (t : String) : PKind :=
  match t with
  | "X" => .X
  | "Y" => .Y
  | "Z" => .Z
  | _ => .I

def kindStr : PKind → String
  | .I => "I" | .X => "X" | .Y => "Y" | .Z => "Z"

def handle : P String := do
  let cmd ← nextTok
  match cmd with
  | "FORM" =>
    let n ← nextNat
    let tree ← nextForm
    let ast ← nextForm
    let ψ ← nextGIs (2 ^ n)
    let D := denseT n tree
    let v1 := denoteT n ast ψ
    let v2 := applyGatesT n (TermHam.ofForm sameSym ast) ψ
    let v3 := tableOf n (mulVec n (ofTable2 n D) (ofTable n ψ))
    pure s!"{showGIs D} ; {showGIs v1} ; {showGIs v2} ; {showGIs v3}"
  | "FORMDM" =>
    let n ← nextNat
    let tree ← nextForm
    let ast ← nextForm
    let ρ ← nextGIs (2 ^ n * 2 ^ n)
    let D := denseT n tree
    let r1 := tableOf2 n (mMul n (ofTable2 n D) (ofTable2 n ρ))
    let r2 := applyGatesDMT n (TermHam.ofForm sameSym ast) ρ
    pure s!"{showGIs r1} ; {showGIs r2}"
  | "TERMS" =>
    let n ← nextNat
    let ms ← nextMonos
    let ψ ← nextGIs (2 ^ n)
    let ρ ← nextGIs (2 ^ n * 2 ^ n)
    let h := TermHam.ofRaw ms
    let parts := h.terms.map fun t =>
      let k := t.targets.length
      let d := 2 ^ k
      let m : Array GI := Array.ofFn (n := d * d) fun i => t.matrix (i.val / d) (i.val % d)
      s!"{t.coef.toStr} ; {showNats (t.factors.map (·.id))} ; {showNats t.targets} ; {showGIs m}"
    let z : Array GI := ψ.map (fun _ => 0)
    let viaGates := h.terms.foldl (fun acc t =>
      Array.zipWith (· + ·) acc (tableOf n (applyGate t.gate (ofTable n ψ)))) z
    let viaGates := Array.zipWith (· + ·) viaGates (ψ.map (fun v => h.constant * v))
    pure (" | ".intercalate (parts ++ [s!"{h.constant.toStr} ; {showGIs (applyGatesT n h ψ)} ; {showGIs (applyGatesDMT n h ρ)} ; {showGIs viaGates}"]))
  | "EXPAND" =>
    let ast ← nextForm
    let ms := (expand ast).map fun m => (m.1, groupPowers sameSym m.2)
    let parts := ms.map fun m =>
      let fs := m.2.map fun f => match f with
        | .symPow s k => s!"{s.id} {k}"
        | .num c => s!"N {c.toStr}"
      s!"{m.1.toStr} ; {" ".intercalate fs}"
    pure (" | ".intercalate parts)
  | "SAMPLES" =>
    let n ← nextNat
    let ms ← nextMonos
    let tree ← nextForm
    let lq ← nextNat
    let qm ← nextNats lq
    let nk ← nextNat
    let mut freqR : List (List Bool × GI) := []
    for _ in [0:nk] do
      let key ← nextKey lq
      let c ← nextInt
      freqR := (key, (⟨c, 0⟩ : GI)) :: freqR
    let freq := freqR.reverse
    let h := TermHam.ofRaw ms
    let D := denseT n tree
    let d := 2 ^ n
    let diag : Nat → GI := fun i => D.getD (i * d + i) 0
    let a := samplesSymbolicScaled h qm freq
    let b := samplesDenseScaled diag qm freq
    -- SPEC: Σ count · ⟨x_key| H |x_key⟩ with the label read through the map
    let c := freq.foldl (fun acc kc => acc + diag (Lab.toIndex n (keyLabel qm kc.1)) * kc.2) (0 : GI)
    pure s!"{a.toStr} ; {b.toStr} ; {c.toStr}"
  | "HEIS" =>
    let n ← nextNat
    let jx ← nextInt
    let jy ← nextInt
    let jz ← nextInt
    let hx ← nextInt
    let hy ← nextInt
    let hz ← nextInt
    let pY : Nat → Nat → GI := fun i j => if i = 0 ∧ j = 1 then ⟨0, -1⟩ else if i = 1 ∧ j = 0 then ⟨0, 1⟩ else 0
    let mk (J h : Int) (m : Nat → Nat → GI) : HComp GI := { J := ⟨J, 0⟩, h := ⟨h, 0⟩, keep := h != 0, mat := m }
    let cs := [mk jx hx pauliX, mk jy hy pY, mk jz hz pauliZ]
    let A := tableOf2 n (heisDense n cs)
    let B := denseT n (heisForm n cs)
    pure s!"{showGIs A} ; {showGIs B}"
  | "CIRC" =>
    let n ← nextNat
    let nt ← nextNat
    let mut termsR : List (PTerm GI) := []
    for _ in [0:nt] do
      let c ← nextGI
      let nf ← nextNat
      let mut fsR : List PFac := []
      for _ in [0:nf] do
        let k ← nextTok
        let q ← nextNat
        fsR := { kind := kindOf k, q := q } :: fsR
      termsR := { coef := c, factors := fsR.reverse } :: termsR
    let ψ ← nextGIs (2 ^ n)
    let parts := termsR.reverse.map fun t =>
      let ms := measurements t.factors
      let layer := " ".intercalate (ms.map fun m => s!"{m.1}:{kindStr m.2}")
      let v := measuredValue n GI.conj giI ms (ofTable n ψ)
      let e := expectState n GI.conj (pauliWord giI t.factors (ofTable n ψ)) (ofTable n ψ)
      s!"{rotCount ms} ; {layer} ; {v.toStr} ; {e.toStr}"
    let nrm := norm2 n GI.conj (ofTable n ψ)
    pure s!"{" | ".intercalate parts} || {nrm.toStr}"
  | "HIST" =>
    let n ← nextNat
    let ns ← nextNat
    let mut stepsR : List (AStep GI) := []
    for _ in [0:ns] do
      stepsR := (← nextStep) :: stepsR
    let steps := stepsR.reverse
    let ψ ← nextGIs (2 ^ n)
    let a := runAlg sameSym false steps
    let b := runAlg sameSym true steps
    pure s!"{showStore n a ψ} || {showStore n b ψ}"
  | "TFIM" =>
    let n ← nextNat
    let h ← nextGI
    let A := tableOf2 n (tfimDense n h)
    let B := denseT n (tfimForm n h)
    pure s!"{showGIs A} ; {showGIs B}"
  | "ONE" =>
    let n ← nextNat
    let m ← nextGIs 4
    let mat : Nat → Nat → GI := fun i j => m.getD (i * 2 + j) 0
    let A := tableOf2 n (oneBodyDense n mat)
    let B := denseT n (oneBodyForm n mat)
    pure s!"{showGIs A} ; {showGIs B}"
  | "" => pure ""
  | c => pure s!"bad-op {c}"

partial def loop (h : IO.FS.Stream) : IO Unit := do
  let line ← h.getLine
  if line.isEmpty then return ()
  let toks := (line.splitOn " ").filter (· ≠ "") |>.map (fun s => s.trimAscii.toString) |>.filter (· ≠ "")
  let (out, _) := handle.run { toks := toks.toArray }
  IO.println out
  loop h

def main : IO Unit := do
  loop (← IO.getStdin)
