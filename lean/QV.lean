import QV.Core.Sym
import QV.Core.Oblig
import QV.Core.CFloat
import QV.Core.Bits
import QV.Core.GI
import QV.Model.Table
import QV.Model.Sim
