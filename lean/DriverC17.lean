/-
  Line-protocol driver for property C17: runs the executable model QV.Model.Superop on
  Gaussian-integer data.  `lake env lean --run DriverC17.lean`, one case per input line.
-/
import QV.Core.GI
import QV.Model.Table
import QV.Model.Sim
import QV.Model.Superop
open QV QV.Superop

structure Rd where
  toks : Array String
  pos : Nat := 0

abbrev P := StateM Rd

def nextTok : P String := do
  let s ← get
  set { s with pos := s.pos + 1 }
  pure (s.toks.getD s.pos "")

def nextInt : P Int := do
  let t ← nextTok
  pure (t.toInt?.getD 0)

def nextNat : P Nat := do
  let t ← nextInt
  pure t.toNat

def nextNats (k : Nat) : P (List Nat) := do
  let mut out := []
  for _ in [0:k] do
    out := (← nextNat) :: out
  pure out.reverse

def nextGI : P GI := do
  let a ← nextInt
  let b ← nextInt
  pure ⟨a, b⟩

def nextGIs (k : Nat) : P (Array GI) := do
  let mut out := Array.mkEmpty k
  for _ in [0:k] do
    out := out.push (← nextGI)
  pure out

def showGIs (a : Array GI) : String :=
  " ".intercalate (a.toList.map GI.toStr)

def ordOf : Nat → Order
  | 0 => .row
  | 1 => .column
  | _ => .system

def matOf (m : Nat) (a : Array GI) : Mat GI := fun r c => if r < m ∧ c < m then a.getD (r * m + c) 0 else 0
def arrOf (m : Nat) (M : Mat GI) : Array GI := Array.ofFn (n := m * m) fun i => M (i.val / m) (i.val % m)
def vecOf (a : Array GI) : Nat → GI := fun k => a.getD k 0
def arrOfVec (m : Nat) (v : Nat → GI) : Array GI := Array.ofFn (n := m) fun i => v i.val

/-- Kraus operator given as a gate on ordered target qubits, embedded in `n` qubits with the
simulator model (what `FusedGate(*range(n)).append(gate).matrix()` computes). -/
def nextKraus (n : Nat) : P (Mat GI) := do
  let k ← nextNat
  let ts ← nextNats k
  let d := 2 ^ k
  let m ← nextGIs (d * d)
  let g : MGate GI := { mat := fun i j => m.getD (i * d + j) 0, targets := ts, controls := [] }
  let D := 2 ^ n
  let cols : Array (Array GI) := Array.ofFn (n := D) fun j =>
    tableOf n (applyGate g (fun x => if Lab.toIndex n x = j.val then (1 : GI) else 0))
  pure (fun r c => if r < D ∧ c < D then (cols.getD c #[]).getD r 0 else 0)

def nextKrausList (n : Nat) : P (List (Mat GI)) := do
  let nk ← nextNat
  let mut ks := []
  for _ in [0:nk] do
    ks := (← nextKraus n) :: ks
  pure ks.reverse

def im : GI := ⟨0, 1⟩

def handle : P String := do
  let cmd ← nextTok
  match cmd with
  | "VEC" =>
    let o := ordOf (← nextNat); let d ← nextNat; let n ← nextNat
    let a ← nextGIs (d * d)
    pure (showGIs (arrOfVec (d * d) (vectorization o d n (matOf d a))))
  | "UNVEC" =>
    let o := ordOf (← nextNat); let d ← nextNat; let n ← nextNat
    let a ← nextGIs (d * d)
    pure (showGIs (arrOf d (unvectorization o d n (vecOf a))))
  | "RESH" =>
    let o := ordOf (← nextNat); let d ← nextNat
    let a ← nextGIs (d * d * d * d)
    pure (showGIs (arrOf (d * d) (reshuffle o d (matOf (d * d) a))))
  | "KCHOI" =>
    let o := ordOf (← nextNat); let n ← nextNat
    let ks ← nextKrausList n
    pure (showGIs (arrOf (4 ^ n) (krausToChoi GI.conj o (2 ^ n) n ks)))
  | "KLIOU" =>
    let o := ordOf (← nextNat); let n ← nextNat
    let ks ← nextKrausList n
    let Ca := arrOf (4 ^ n) (krausToChoi GI.conj o (2 ^ n) n ks)
    pure (showGIs (arrOf (4 ^ n) (choiToLiouville o (2 ^ n) (matOf (4 ^ n) Ca))))
  | "BASIS" =>
    let o := ordOf (← nextNat); let n ← nextNat; let po ← nextNats 4
    pure (showGIs (arrOf (4 ^ n) (compToPauli GI.conj im po o n)))
  | "L2P" =>
    let o := ordOf (← nextNat); let n ← nextNat; let po ← nextNats 4
    let a ← nextGIs (4 ^ n * 4 ^ n)
    let m := 4 ^ n
    let Ba := arrOf m (compToPauli GI.conj im po o n)
    let B := matOf m Ba
    let S := matOf m a
    let BSa := arrOf m (matMul m B S)
    pure (showGIs (arrOf m (matMul m (matOf m BSa) (conjT GI.conj B))))
  | "P2L" =>
    let o := ordOf (← nextNat); let n ← nextNat; let po ← nextNats 4
    let a ← nextGIs (4 ^ n * 4 ^ n)
    let m := 4 ^ n
    let Ba := arrOf m (pauliToComp im po o n)
    let Bi := matOf m Ba
    let S := matOf m a
    let BSa := arrOf m (matMul m Bi S)
    pure (showGIs (arrOf m (matMul m (matOf m BSa) (conjT GI.conj Bi))))
  | "KCHI" =>
    let o := ordOf (← nextNat); let n ← nextNat; let po ← nextNats 4
    let ks ← nextKrausList n
    let m := 4 ^ n
    let Ba := arrOf m (compToPauli GI.conj im po o n)
    let B := matOf m Ba
    let vs : List (Array GI) := ks.map fun K => arrOfVec m (matVec m B (vectorization o (2 ^ n) n K))
    pure (showGIs (arrOf m (fun r c => sumList vs (fun v => v.getD r 0 * GI.conj (v.getD c 0)))))
  | "K2S" =>
    let n ← nextNat
    let ks ← nextKrausList n
    let e := ks.length
    let v ← nextGIs e
    pure (showGIs (arrOf (2 ^ n * e) (krausToStinespring GI.conj e ks (vecOf v))))
  | "S2K" =>
    let d ← nextNat; let e ← nextNat
    let a ← nextGIs (d * e * d * e)
    let v ← nextGIs e
    let S := matOf (d * e) a
    let outs := (List.range e).map fun al => showGIs (arrOf d (stinespringToKraus e S (vecOf v) al))
    pure (" ".intercalate outs)
  | "" => pure ""
  | c => pure s!"bad-op {c}"

partial def loop (h : IO.FS.Stream) : IO Unit := do
  let line ← h.getLine
  if line.isEmpty then return ()
  let toks := (line.splitOn " ").filter (· ≠ "") |>.map (fun s => s.trimAscii.toString) |>.filter (· ≠ "")
  let (out, _) := handle.run { toks := toks.toArray }
  IO.println out
  loop h

def main : IO Unit := do
  loop (← IO.getStdin)
