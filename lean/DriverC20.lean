/-
  Line-protocol driver of the C20 model (QV/Model/Encodings.lean): one case per input
  line, one canonical answer per line.  `lake env lean --run DriverC20.lean`.
-/
import QV.Model.Encodings
import QV.Model.EncodingsB
open QV QV.Enc

structure Rd where
  toks : Array String
  pos : Nat := 0

abbrev P := StateM Rd

def nextTok : P String := do
  let s ← get
  set { s with pos := s.pos + 1 }
  pure (s.toks.getD s.pos "")

def nextNat : P Nat := do
  let t ← nextTok
  pure (t.toInt?.getD 0).toNat

def nextBits (k : Nat) : P (List Bool) := do
  let mut out := []
  for _ in [0:k] do
    out := ((← nextNat) != 0) :: out
  pure out.reverse

def showGates (gs : List GD) : String := ";".intercalate (gs.map GD.show)

def showGatesB (gs : List BG) : String := ";".intercalate (gs.map BG.show)

def showPairs (rows : List (List (Nat × Nat))) : String :=
  "|".intercalate (rows.map fun row => " ".intercalate (row.map fun p => s!"{p.1},{p.2}"))

def showStep (st : Step) : String :=
  s!"{st.src} {st.dst} " ++ ",".intercalate (st.controls.map toString)

def handle : P String := do
  let cmd ← nextTok
  match cmd with
  | "QFT" =>
    let n ← nextNat
    let ws ← nextNat
    pure (showGates (qft n (ws != 0)))
  | "CB" =>
    let m ← nextNat
    let bits ← nextBits m
    pure (showGates (compBasis bits))
  | "CBI" =>
    let n ← nextNat
    let v ← nextNat
    pure (showGates (compBasis (bitsOfNat n v)))
  | "GHZ" =>
    let n ← nextNat
    pure (showGates (ghz n))
  | "PAIRS" =>
    let n ← nextNat
    let t ← nextNat
    pure (showPairs (rbsPairs n (t != 0)))
  | "UNARY" =>
    let n ← nextNat
    let t ← nextNat
    pure (showGates (unary n (t != 0)))
  | "EHR" =>
    let n ← nextNat
    let bits ← nextBits n
    let steps := ehrlich bits
    pure (" ".intercalate ((ehrlichStrings bits).map showBits) ++ " # " ++
      ";".intercalate (steps.map showStep))
  | "HW" =>
    let n ← nextNat
    let k ← nextNat
    let o ← nextNat
    let f ← nextNat
    pure (showGates (hwEncoder n k (o != 0) (f != 0)))
  | "TREE" =>
    -- closed form of the tree loader on 2^m qubits (T20_unary_tree_gates)
    let m ← nextNat
    pure (showGates (({ kind := .X, q0 := 2 ^ m - 1 } : GD) :: treeGates m))
  | "SHAPE" =>
    -- admissible initial string of the walk, where the walk ends, and the model's own walk
    let kind ← nextNat
    let w ← nextNat
    let z ← nextNat
    let st := seStart kind w z
    pure (s!"{seValid kind w z} {showBits st} {showBits (seEnd kind w z)} {showBits (ehrLast st)} {(ehrlichStrings st).length}")
  | "HSINITS" =>
    -- initial strings of the Hamming-weight blocks of the hyperspherical binary encoder
    let n ← nextNat
    pure (" ".intercalate ((hsInits n).map showBits) ++ " # " ++
      " ".intercalate ((List.range (n - 1)).map (fun i => showBits (hsInitClosed n (i + 1)))))
  | "QFTD" =>
    -- QFT(n, accelerators=...): the distributed gate order
    let n ← nextNat
    pure (showGates (qftDist n))
  | "PHASE" =>
    -- phase_encoder on n qubits; rot: 0 = RX, 1 = RY, 2 = RZ
    let n ← nextNat
    let r ← nextNat
    pure (showGatesB (phaseEnc n (if r == 0 then .RX else if r == 1 then .RY else .RZ)))
  | "HS" =>
    -- binary_encoder(·, "hyperspherical") on n qubits, real / complex data
    let n ← nextNat
    let c ← nextNat
    pure (showGatesB (hsEncoder n (c != 0)))
  | "HSWALK" =>
    -- the basis states in the order in which the hyperspherical encoder writes them
    let n ← nextNat
    pure (" ".intercalate ((hsWalk n).map showBits))
  | "HOPF" =>
    let n ← nextNat
    pure (showGatesB (hopf n))
  | "HWB" =>
    let n ← nextNat
    let k ← nextNat
    let o ← nextNat
    let f ← nextNat
    let c ← nextNat
    let pc ← nextNat
    pure (showGatesB (hwEncoderB n k (o != 0) (f != 0) (c != 0) (pc != 0)))
  | "MAT" =>
    -- matrix of a descriptor over the integers with c = 2, s = 3, p = 5, m = 7, i = 11,
    -- lp0 = 13, lm0 = 17, lp1 = 19, lm1 = 23 (decoded by prime factorisation in the harness)
    let k ← nextNat
    let neg ← nextNat
    let dbl ← nextNat
    let kind : BK := match k with
      | 0 => .X | 1 => .RX | 2 => .RY | 3 => .RZ | 4 => .RBS | 5 => .U3 | _ => .U3L
    let P : Par2 Int := { c := fun _ => 2, s := fun _ => 3, p := fun _ => 5, m := fun _ => 7, i := 11,
                          lp0 := 13, lm0 := 17, lp1 := 19, lm1 := 23 }
    let g := BG.sem P { kind := kind, q0 := 0, q1 := 1, neg := neg != 0, dbl := dbl != 0 }
    let d := 2 ^ g.targets.length
    pure (";".intercalate ((List.range d).map fun i => " ".intercalate ((List.range d).map fun j => toString (g.mat i j))))
  | "" => pure ""
  | c => pure s!"bad-op {c}"

partial def loop (h : IO.FS.Stream) : IO Unit := do
  let line ← h.getLine
  if line.isEmpty then return ()
  let toks := (line.splitOn " ").filter (· ≠ "") |>.map (fun s => s.trimAscii.toString) |>.filter (· ≠ "")
  let (out, _) := handle.run { toks := toks.toArray }
  IO.println out
  loop h

def main : IO Unit := do
  loop (← IO.getStdin)
