/-
  Line-protocol driver for C07 (fusion / light cone).  One case per input line, one
  canonical answer line.  Run with `lake env lean --run DriverC07.lean`.

    FUSE  n maxq ng {kind k q1..qk}*            groups of the model's fused queue + checks
    TEQ   n ng {kind k q1..qk}* m id1..idm      is the listed order ~ₜ the original queue
    CONE  n ng {kind k q1..qk}* ns s1..s_ns     light cone: cone ids | rest ids | qubits | checks
    FMAT  nQ Q1..Q_nQ ng {gate}*                matrix_fused of the group on the qubit list Q
    SV    n ng {gate}* psi                      run the original queue gate by gate
    SVF   n ngroups {nQ Q.. ng {gate}*}* psi    run a fused queue (each group as ONE gate)
    RED   n ng {gate}* nT T1..T_nT psi          reduced density matrix of the final state
    OBS   n maxq nq {kind k q1..qk}* ng {gate}* nout o1..o_nout psi
                                                observation traces (QV/Model/FusionObs.lean) of the
                                                original queue and of the model's fused queue; kinds:
                                                0 gate, 1 deferred M, 2 callback, 3 collapsing M; the
                                                gates are those of the kind-0 entries in order; the
                                                j-th collapsing measurement of a run draws o_j
    FLAGS nq dm hc huc nm m1..m_nm maxq nq' {kind k q1..qk}*
                                                attributes of the fused circuit object
  gate = k nc t1..tk c1..cnc then 2^k*2^k Gaussian integers (row major), as in Driver.lean.
-/
import QV.Core.GI
import QV.Model.Table
import QV.Model.Sim
import QV.Model.Fusion
import QV.Model.FusionObs
open QV

structure Rd where
  toks : Array String
  pos : Nat := 0

abbrev P := StateM Rd

def nextTok : P String := do
  let s ← get
  set { s with pos := s.pos + 1 }
  pure (s.toks.getD s.pos "")

def nextInt : P Int := do
  let t ← nextTok
  pure (t.toInt?.getD 0)

def nextNat : P Nat := do
  let t ← nextInt
  pure t.toNat

def nextNats (k : Nat) : P (List Nat) := do
  let mut out := []
  for _ in [0:k] do
    out := (← nextNat) :: out
  pure out.reverse

def nextGI : P GI := do
  let a ← nextInt
  let b ← nextInt
  pure ⟨a, b⟩

def nextGIs (k : Nat) : P (Array GI) := do
  let mut out := Array.mkEmpty k
  for _ in [0:k] do
    out := out.push (← nextGI)
  pure out

def nextGate : P (MGate GI) := do
  let k ← nextNat
  let nc ← nextNat
  let ts ← nextNats k
  let cs ← nextNats nc
  let d := 2 ^ k
  let m ← nextGIs (d * d)
  pure { mat := fun i j => m.getD (i * d + j) 0, targets := ts, controls := cs }

def nextGates : P (List (MGate GI)) := do
  let ng ← nextNat
  let mut gs := []
  for _ in [0:ng] do
    gs := (← nextGate) :: gs
  pure gs.reverse

def nextQueue : P (List FIn) := do
  let ng ← nextNat
  let mut gs := []
  for _ in [0:ng] do
    let kind ← nextNat
    let k ← nextNat
    let qs ← nextNats k
    gs := ({ qs := qs, kind := kind } : FIn) :: gs
  pure gs.reverse

def showGIs (a : Array GI) : String :=
  " ".intercalate (a.toList.map GI.toStr)

def showNats (l : List Nat) : String := ",".intercalate (l.map toString)

def b2s (b : Bool) : String := if b then "1" else "0"

def runSV (n : Nat) (gs : List (MGate GI)) (ψ : Array GI) : Array GI :=
  gs.foldl (fun s g => tableOf n (applyGate g (ofTable n s))) ψ

/-- materialise a matrix so that products stay cheap. -/
def matTable (d : Nat) (m : Nat → Nat → GI) : Array GI :=
  Array.ofFn (n := d * d) (fun i => m (i.val / d) (i.val % d))

def fusedTable (Q : List Nat) (gs : List (MGate GI)) : Array GI :=
  let d := 2 ^ Q.length
  let one : Array GI := matTable d (fun i j => if i = j then 1 else 0)
  gs.foldl (fun M g =>
    let E := matTable d (embedEntry Q g)
    matTable d (matMul d (fun i j => E.getD (i * d + j) 0) (fun i j => M.getD (i * d + j) 0))) one

def isPermOfRange (m : Nat) (ids : List Nat) : Bool :=
  ids.length == m && (List.range m).all (fun i => ids.contains i)


/-! observation runs: the simulator keeps the state as a table (a `QSpace` whose `app` is
`applyGate` followed by materialisation), the reduced state is `svSpace`'s. -/

def tabSpace (n : Nat) : QSpace GI (Array GI) (DM GI) where
  app := fun g s => tableOf n (applyGate g (ofTable n s))
  smul := fun c s => s.map (fun x => c * x)
  red := fun qs s => (svSpace GI.conj n).red qs (ofTable n s)

def nReduced (log : List (Nat × Obs (Array GI) (DM GI))) : Nat :=
  (log.filter (fun e => match e.2 with | .reduced _ _ => true | _ => false)).length

def showRun (sem : Nat → OItem GI) (r : ORun (Array GI) (DM GI)) : String :=
  let z : Lab := fun _ => false
  let ents := r.log.map (fun e =>
    match e.2 with
    | .whole s => s!"C {e.1} {showGIs s}"
    | .reduced red k =>
      let qs := match sem e.1 with | .collapse qs => qs | _ => []
      let d := 2 ^ qs.length
      let entries := Array.ofFn (n := d * d) (fun i =>
        red (Lab.withIdx z qs (i.val / d)) (Lab.withIdx z qs (i.val % d)))
      s!"M {e.1} {k} {showGIs entries}")
  " | ".intercalate (ents ++ [s!"F {showGIs r.st}"])

def handle : P String := do
  let cmd ← nextTok
  match cmd with
  | "FUSE" =>
    let n ← nextNat
    let maxq ← nextNat
    let queue ← nextQueue
    let groups := fuseModel n maxq queue
    let flat := groups.flatten
    let tg := tgates n queue
    let sizes := groups.all (fun g => g.length ≤ 1 || (groupQubits queue g).length ≤ maxq)
    let perm := isPermOfRange queue.length flat
    let teq := traceEqB TGate.qs tg (flat.map (fun i => tg.getD i default))
    pure s!"{"|".intercalate (groups.map showNats)} ; sizes={b2s sizes} perm={b2s perm} teq={b2s teq}"
  | "TEQ" =>
    let n ← nextNat
    let queue ← nextQueue
    let m ← nextNat
    let ids ← nextNats m
    let tg := tgates n queue
    let ok := isPermOfRange queue.length ids &&
      traceEqB TGate.qs tg (ids.map (fun i => tg.getD i default))
    pure (b2s ok)
  | "CONE" =>
    let n ← nextNat
    let queue ← nextQueue
    let ns ← nextNat
    let S ← nextNats ns
    let tg := tgates n queue
    let (c, o, Q) := lightCone TGate.qs tg S
    let teq := traceEqB TGate.qs tg (c ++ o)
    let restOff := o.all (fun g => disjointB g.qs S)
    let coneIn := c.all (fun g => g.qs.all (fun q => Q.contains q))
    pure s!"{showNats (c.map (·.id))} | {showNats (o.map (·.id))} | {showNats Q} ; teq={b2s teq} restoff={b2s restOff} conein={b2s coneIn}"
  | "FMAT" =>
    let nQ ← nextNat
    let Q ← nextNats nQ
    let gs ← nextGates
    pure (showGIs (fusedTable Q gs))
  | "SV" =>
    let n ← nextNat
    let gs ← nextGates
    let ψ ← nextGIs (2 ^ n)
    pure (showGIs (runSV n gs ψ))
  | "SVF" =>
    let n ← nextNat
    let ngr ← nextNat
    let mut fgs : List (MGate GI) := []
    for _ in [0:ngr] do
      let nQ ← nextNat
      let Q ← nextNats nQ
      let gs ← nextGates
      let d := 2 ^ nQ
      let T := fusedTable Q gs
      fgs := ({ mat := fun i j => T.getD (i * d + j) 0, targets := Q, controls := [] } : MGate GI) :: fgs
    let ψ ← nextGIs (2 ^ n)
    pure (showGIs (runSV n fgs.reverse ψ))
  | "RED" =>
    let n ← nextNat
    let gs ← nextGates
    let nT ← nextNat
    let T ← nextNats nT
    let ψ ← nextGIs (2 ^ n)
    let out := runSV n gs ψ
    let f := ofTable n out
    let ρ : DM GI := fun x y => f x * GI.conj (f y)
    let keep := (List.range n).filter (fun q => !T.contains q)
    let red := ptrace T ρ
    let d := 2 ^ keep.length
    let z : Lab := fun _ => false
    let entries := Array.ofFn (n := d * d) (fun i =>
      red (Lab.withIdx z keep (i.val / d)) (Lab.withIdx z keep (i.val % d)))
    pure (showGIs entries)
  | "OBS" =>
    let n ← nextNat
    let maxq ← nextNat
    let queueK ← nextQueue
    let gs ← nextGates
    let nout ← nextNat
    let outs ← nextNats nout
    let ψ ← nextGIs (2 ^ n)
    let queue := queueK.map (fun g => if g.kind == 3 then ({ g with kind := 1 } : FIn) else g)
    let gsA := gs.toArray
    let kinds := queueK.toArray
    let gidx : Nat → Nat := fun i => ((queueK.take i).filter (fun g => g.kind == 0)).length
    let dflt : MGate GI := { mat := fun i j => if i = j then 1 else 0, targets := [] }
    let sem : Nat → OItem GI := fun i =>
      let e := kinds.getD i default
      if e.kind == 0 then OItem.gate (gsA.getD (gidx i) dflt)
      else if e.kind == 2 then OItem.callback
      else if e.kind == 3 then OItem.collapse (sortS e.qs)
      else OItem.defer e.qs
    let draw : List (Nat × Obs (Array GI) (DM GI)) → DM GI → Nat := fun log _ => outs.getD (nReduced log) 0
    let nrm : DM GI → Nat → GI := fun _ _ => 1
    let r0 : ORun (Array GI) (DM GI) := { st := ψ, log := [] }
    let sp := tabSpace n
    let orig := orun sp draw nrm (origItems sem queue.length) r0
    let groups := (fuseModel n maxq queue).map (fun g => (g, groupQubits queue g))
    let fused := orun sp draw nrm (fusedItems sem groups) r0
    pure s!"{showRun sem orig} || {showRun sem fused}"
  | "FLAGS" =>
    let nq ← nextNat
    let dm ← nextNat
    let hc ← nextNat
    let huc ← nextNat
    let nm ← nextNat
    let ms ← nextNats nm
    let maxq ← nextNat
    let queue ← nextQueue
    let kw : InitKw := { nqubits := nq, density_matrix := dm == 1, wire_names := List.range nq }
    let c0 := CircObj.init kw
    let c : CircObj := { c0 with has_collapse := hc == 1, has_unitary_channel := huc == 1, measurements := ms, queue := (List.range queue.length).map (fun i => [i]) }
    let f := c.fuse queue maxq
    pure s!"nq={f.nqubits} dm={b2s f.density_matrix} hc={b2s f.has_collapse} huc={b2s f.has_unitary_channel} ms={showNats f.measurements} kwnq={f.init_kwargs.nqubits} kwdm={b2s f.init_kwargs.density_matrix} rep={b2s f.repeatedExecution} rep0={b2s c.repeatedExecution} queue={"|".intercalate (f.queue.map showNats)}"
  | "" => pure ""
  | c => pure s!"bad-op {c}"

partial def loop (h : IO.FS.Stream) : IO Unit := do
  let line ← h.getLine
  if line.isEmpty then return ()
  let toks := (line.splitOn " ").filter (· ≠ "") |>.map (fun s => s.trimAscii.toString) |>.filter (· ≠ "")
  let (out, _) := handle.run { toks := toks.toArray }
  IO.println out
  loop h

def main : IO Unit := do
  loop (← IO.getStdin)
