/-
  Line-protocol driver of the unroller dispatch model (QV/Model/Unroller.lean).
  One case per line (whitespace separated integers after the command word):

    TR     mask fuel TABLES GATE          → translate_gate
    UNROLL mask fuel TABLES n GATE*n      → Unroller.__call__
    CLOSED mask TABLES                    → closedCheck
    ASSERT mask n GATE*n                  → assert_decomposition

    GATE   = cls nq q_1 … q_nq tag cb
    TABLE  = k cls_1 … cls_k  r ROW*r ;  ROW = cls tag m GATE*m
    TABLES = TABLE*6   (gpi2 u3 cz iswap opt cnot)

  Answer: `ERR` or `OK cls:q,q:tag:cb …`; `true` / `false` for CLOSED and ASSERT.
  Run with `lake env lean --run DriverC10.lean`.
-/
import QV.Model.Unroller
open QV.Unroll

structure Rd where
  toks : Array String
  pos : Nat := 0

abbrev P := StateM Rd

def nextTok : P String := do
  let s ← get
  set { s with pos := s.pos + 1 }
  pure (s.toks.getD s.pos "")

def nextInt : P Int := do
  let t ← nextTok
  pure (t.toInt?.getD 0)

def nextNat : P Nat := do
  let t ← nextInt
  pure t.toNat

def nextNats (k : Nat) : P (List Nat) := do
  let mut out := []
  for _ in [0:k] do
    out := (← nextNat) :: out
  pure out.reverse

def nextGate : P UGate := do
  let c ← nextNat
  let nq ← nextNat
  let qs ← nextNats nq
  let tag ← nextNat
  let cb ← nextNat
  pure { cls := c, qubits := qs, tag := tag, cb := cb != 0 }

def nextGates (k : Nat) : P (List UGate) := do
  let mut out := []
  for _ in [0:k] do
    out := (← nextGate) :: out
  pure out.reverse

def nextTable : P TableData := do
  let k ← nextNat
  let cs ← nextNats k
  let r ← nextNat
  let mut rows := []
  for _ in [0:r] do
    let c ← nextNat
    let t ← nextNat
    let m ← nextNat
    let gs ← nextGates m
    rows := (c, t, gs) :: rows
  pure { classes := cs, rows := rows.reverse }

def nextTables : P TablesData := do
  let a ← nextTable
  let b ← nextTable
  let c ← nextTable
  let d ← nextTable
  let e ← nextTable
  let f ← nextTable
  pure ⟨a, b, c, d, e, f⟩

def showGate (g : UGate) : String :=
  s!"{g.cls}:{",".intercalate (g.qubits.map toString)}:{g.tag}:{if g.cb then 1 else 0}"

def showRes : Option (List UGate) → String
  | none => "ERR"
  | some l => " ".intercalate ("OK" :: l.map showGate)

def handle : P String := do
  let cmd ← nextTok
  match cmd with
  | "TR" =>
    let mask ← nextNat
    let fuel ← nextNat
    let D ← nextTables
    let g ← nextGate
    pure (showRes (translate D.toTables mask fuel g))
  | "UNROLL" =>
    let mask ← nextNat
    let fuel ← nextNat
    let D ← nextTables
    let n ← nextNat
    let gs ← nextGates n
    pure (showRes (unroll D.toTables mask fuel gs))
  | "CLOSED" =>
    let mask ← nextNat
    let D ← nextTables
    pure (toString (closedCheck D mask))
  | "ASSERT" =>
    let mask ← nextNat
    let n ← nextNat
    let gs ← nextGates n
    pure (toString (assertDecomposition mask gs))
  | "" => pure ""
  | c => pure s!"bad-op {c}"

partial def loop (h : IO.FS.Stream) : IO Unit := do
  let line ← h.getLine
  if line.isEmpty then return ()
  let toks := (line.splitOn " ").filter (· ≠ "") |>.map (fun s => s.trimAscii.toString) |>.filter (· ≠ "")
  let (out, _) := handle.run { toks := toks.toArray }
  IO.println out
  loop h

def main : IO Unit := do
  loop (← IO.getStdin)
