/-
  Line-protocol driver of the IBMQ composite noise model (QV/Model/NoiseIBMQ.lean).
  One case per line (whitespace separated integers after the command word):

    IBMQ mCls ng GATE*ng PARAMS

    GATE   = cls nq q_1 … q_nq isM isChan
    PARAMS = PV1(depolarizing_one_qubit) PV2(depolarizing_two_qubit) PV1(t1) PV1(t2)
             gate_time_1 gate_time_2 excited_population RO(readout_one_qubit)
    PV1    = 0 v | 1 n (KEY v)*n | 2                (number | dict | anything else)
    PV2    = 0 v | 1 n (KEY v)*n | 2
    RO     = 0 r | 1 n (KEY ROV)*n | 2
    KEY    = len c_1 … c_len                        (the key STRING, as character codes: the
                                                     model parses it — `int(key)` / the pair form
                                                     `"a-b"`, any number of digits, blanks)
    ROV    = 0 p | 1 len v_1…v_len                  (number | tuple/list)
    (numbers are identifiers of values: the model passes them through unchanged)

  Answer: `RAISE` if `from_dict` raises (a key that is not a numeral / pair of numerals, a `t1` key
  missing in `t2`, an empty readout tuple), else four `|`-separated fields
    rules   R<key>:<kind>:<filter>:<payload>      key -1 = None; filter `-` = None
    items   G<tag> / C<rule>:<kind>:<q,q,…>       `from_dict` then `apply`, rule numbers
    decoded G<tag> / S<kind>:<payload>:<q,q,…>    the same, channels labelled by parameters
    spec    G<tag> / S<kind>:<payload>:<q,q,…>    the documented queue (`ibmqSpec`)
  payload: `D,lam` | `T,t1,t2,time,ep` | `O,p01,p10`.
  Run with `lake env lean --run DriverC19b.lean`.
-/
import QV.Model.NoiseIBMQ
open QV QV.Noise

structure Rd where
  toks : Array String
  pos : Nat := 0

abbrev P := StateM Rd

def nextTok : P String := do
  let s ← get
  set { s with pos := s.pos + 1 }
  pure (s.toks.getD s.pos "")

def nextInt : P Int := do
  let t ← nextTok
  pure (t.toInt?.getD 0)

def nextNat : P Nat := do
  let t ← nextInt
  pure t.toNat

def nextNats (k : Nat) : P (List Nat) := do
  let mut out := []
  for _ in [0:k] do
    out := (← nextNat) :: out
  pure out.reverse

def nextNGate (tag : Nat) : P NGate := do
  let c ← nextNat
  let nq ← nextNat
  let qs ← nextNats nq
  let m ← nextNat
  let ch ← nextNat
  pure { tag := tag, cls := c, qubits := qs, isM := m != 0, isChan := ch != 0 }

def nextNGates : P (List NGate) := do
  let ng ← nextNat
  let mut out := []
  for i in [0:ng] do
    out := (← nextNGate i) :: out
  pure out.reverse

def nextKey : P (List Char) := do
  let n ← nextNat
  let cs ← nextNats n
  pure (cs.map Char.ofNat)

def nextPVS : P (PVal (List Char) Nat) := do
  let c ← nextNat
  match c with
  | 0 => pure (.num (← nextNat))
  | 1 =>
    let n ← nextNat
    let mut out := []
    for _ in [0:n] do
      let k ← nextKey
      let v ← nextNat
      out := (k, v) :: out
    pure (.dict out.reverse)
  | _ => pure .other

def nextROV : P (ROVal Nat) := do
  let c ← nextNat
  match c with
  | 0 => pure (.num (← nextNat))
  | _ =>
    let n ← nextNat
    pure (.seq (← nextNats n))

def nextRO : P (ROParamS Nat) := do
  let c ← nextNat
  match c with
  | 0 => pure (.num (← nextNat))
  | 1 =>
    let n ← nextNat
    let mut out := []
    for _ in [0:n] do
      let k ← nextKey
      let v ← nextROV
      out := (k, v) :: out
    pure (.dict out.reverse)
  | _ => pure .other

def nextParams : P (IBMQParamsS Nat) := do
  let d1 ← nextPVS
  let d2 ← nextPVS
  let t1 ← nextPVS
  let t2 ← nextPVS
  let g1 ← nextNat
  let g2 ← nextNat
  let ep ← nextNat
  let ro ← nextRO
  pure { dep1 := d1, dep2 := d2, t1 := t1, t2 := t2, gt1 := g1, gt2 := g2, ep := ep, ro := ro }

def kindCode : ErrKind → Nat
  | .kraus _ => 0 | .unitary _ => 1 | .pauli => 2 | .depol => 3 | .thermal => 4
  | .ampDamp => 5 | .phaseDamp => 6 | .readout => 7 | .reset => 8 | .custom _ => 9

def showQs (qs : List Nat) : String := ",".intercalate (qs.map toString)

def showPar : IParam Nat → String
  | .depol l => s!"D,{l}"
  | .thermal a b t e => s!"T,{a},{b},{t},{e}"
  | .readout a b => s!"O,{a},{b}"

def showItem : Item → String
  | .gate g => s!"G{g.tag}"
  | .chan r k qs => s!"C{r}:{kindCode k}:{showQs qs}"

def showSItem : SItem Nat → String
  | .gate g => s!"G{g.tag}"
  | .chan k p qs => s!"S{kindCode k}:{showPar p}:{showQs qs}"
  | .bad => "BAD"

def showRule (rp : PRule Nat) : String :=
  let key := match rp.1.key with | none => "-1" | some c => toString c
  let filt := match rp.1.qubits with | none => "-" | some f => showQs f
  s!"R{key}:{kindCode rp.1.kind}:{filt}:{showPar rp.2}"

def handle (line : String) : String :=
  let toks := (line.splitOn " ").filter (· ≠ "") |>.toArray
  let cmd := toks.getD 0 ""
  let rd : Rd := { toks := toks, pos := 1 }
  if cmd == "IBMQ" then
    let act : P String := do
      let mCls ← nextNat
      let gs ← nextNGates
      let pr ← nextParams
      match fromDictS mCls pr with
      | none => pure (if (ibmqSpecS pr gs).isNone then "RAISE" else "RAISE-MISMATCH")
      | some R =>
        let items := attachNoise (R.map (·.1)) gs
        let dec := (ibmqApplyS mCls pr gs).getD []
        let spec := match ibmqSpecS pr gs with | some l => " ".intercalate (l.map showSItem) | none => "NONE"
        pure (" ".intercalate (R.map showRule) ++ " | " ++ " ".intercalate (items.map showItem)
          ++ " | " ++ " ".intercalate (dec.map showSItem) ++ " | " ++ spec)
    (act.run rd).1
  else "ERR unknown command"

partial def loop (h : IO.FS.Stream) (out : IO.FS.Stream) : IO Unit := do
  let line ← h.getLine
  if line.isEmpty then return ()
  let l := line.trimAscii.toString
  if !l.isEmpty then
    out.putStrLn (handle l)
  loop h out

def main : IO Unit := do
  let stdin ← IO.getStdin
  let stdout ← IO.getStdout
  loop stdin stdout
