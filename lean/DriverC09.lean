/-
  Line-protocol driver of the router model (QV/Model/Router.lean).
  One case per input line, one canonical answer line.
  Run with `lake env lean --run DriverC09.lean`.

  gate   := tag meas k q1..qk
  action := X k gate*k | S l0 l1 | Z
  REPLAY n ne (a b)*ne nin gate*nin nfm gate*nfm nact action*nact
      -> per action "p2l l2p len last ;" then "F" final routed list
         "#" guard bits "#" mapsOk bits "#" pickCheck(input, executed ++ final measurements)
  STAR n mid nq gate*nq         -> routed list "|" l2p "#" guards of the generated actions on the star graph (or ERR)
  PICK nin gate*nin nout gate*nout -> 0/1
  DAG m (k q1..qk)*m            -> edge list
  BLOCKS n fuse nq gate*nq      -> `block_decomposition`: ERR | blocks "qa qb | id tag meas k qs , ..." joined by " ; "
                                   "#" pickCheck(split queue, flattened blocks)
  PREV nq gate*nq k q1..qk      -> ids selected by `_find_previous_gates`
  SUCC nq gate*nq k q1..qk      -> ids selected by `_find_successive_gates`
  ONQ  nq gate*nq q             -> ids selected by `_gates_on_qubit`

  measurement-aware model (QV/Model/RouterMeas.lean):
  pform  := N | S v | L k v*k | D k (q v)*k
  item   := tag meas k q1..qk coll ins reg collK nb b1..bnb pform pform
  mact   := X k item*k | S l0 l1 | Z
  MROUTE n ne (a b)*ne nq item*nq nact mact*nact
      -> entries of `addFlags (mroute n queue actions)` "L" final layout
         "#" mwf bits "#" edge-guard bits "#" pickCheck(split body of the model's detach, executed)
         "#" number of detached measurements
         "#" traceEqB on full entries (body of the model's detach vs executed entries; "-" when a
             multi-qubit measurement of the body is split into new gate objects)
  MSTAR n mid nq item*nq        -> entries of `addFlags (mstarRoute …)` "L" layout | ERR
  FRONT nn v*nn ne (a b)*ne     -> `frontLayer` of the DAG
  FRONTX m (k q1..qk)*m ke v*ke -> `frontLayer (execAll (mkDag pairs) executed)` "#" legitB
  entry  := "g tag q.." for gates, "m q.. | coll | reg | collK | basis | p0 | p1" for measurements
-/
import QV.Model.Router
import QV.Model.Blocks
import QV.Model.RouterMeas
import QV.Model.TraceEq
open QV QV.Router QV.Blocks

structure Rd where
  toks : Array String
  pos : Nat := 0

abbrev P := StateM Rd

def nextTok : P String := do
  let s ← get
  set { s with pos := s.pos + 1 }
  pure (s.toks.getD s.pos "")

def nextNat : P Nat := do
  let t ← nextTok
  pure ((t.toInt?.getD 0).toNat)

def nextNats (k : Nat) : P (List Nat) := do
  let mut out := []
  for _ in [0:k] do
    out := (← nextNat) :: out
  pure out.reverse

def nextGate : P RGate := do
  let tag ← nextNat
  let m ← nextNat
  let k ← nextNat
  let qs ← nextNats k
  pure ⟨tag, m == 1, qs⟩

def nextGates : P (List RGate) := do
  let k ← nextNat
  let mut out := []
  for _ in [0:k] do
    out := (← nextGate) :: out
  pure out.reverse

def nextAction : P Action := do
  let c ← nextTok
  match c with
  | "X" => pure (.exec (← nextGates))
  | "S" =>
    let a ← nextNat
    let b ← nextNat
    pure (.swap a b)
  | _ => pure .undo

def nextPForm : P PForm := do
  let c ← nextTok
  match c with
  | "S" => pure (.scalar (← nextNat))
  | "L" =>
    let k ← nextNat
    pure (.list (← nextNats k))
  | "D" =>
    let k ← nextNat
    let mut out : List (Nat × Nat) := []
    for _ in [0:k] do
      let q ← nextNat
      let v ← nextNat
      out := (q, v) :: out
    pure (.dict out.reverse)
  | _ => pure .none

def nextItem : P QItem := do
  let g ← nextGate
  let coll ← nextNat
  let ins ← nextNat
  let reg ← nextNat
  let collK ← nextNat
  let nb ← nextNat
  let basis ← nextNats nb
  let p0 ← nextPForm
  let p1 ← nextPForm
  pure { g := g, coll := coll == 1, ins := ins == 1,
         md := { reg := reg, collK := collK == 1, basis := basis, p0 := p0, p1 := p1 } }

def nextItems : P (List QItem) := do
  let k ← nextNat
  let mut out := []
  for _ in [0:k] do
    out := (← nextItem) :: out
  pure out.reverse

def nextMAction : P MAction := do
  let c ← nextTok
  match c with
  | "X" => pure (.exec (← nextItems))
  | "S" =>
    let a ← nextNat
    let b ← nextNat
    pure (.swap a b)
  | _ => pure .undo

def showNats (l : List Nat) : String := " ".intercalate (l.map toString)

def showGate (g : RGate) : String :=
  s!"{g.tag} {if g.meas then 1 else 0} {g.qs.length} {showNats g.qs}"

def showGates (gs : List RGate) : String := " , ".intercalate (gs.map showGate)

def bit (b : Bool) : String := if b then "1" else "0"

def showPForm : PForm → String
  | .none => "N"
  | .scalar v => s!"S {v}"
  | .list vs => s!"L {showNats vs}"
  | .dict kv =>
    let sorted := kv.mergeSort (fun a b => a.1 ≤ b.1)
    "D " ++ " ".intercalate (sorted.map fun e => s!"{e.1}:{e.2}")

def showEntry (it : QItem) : String :=
  if it.g.meas then
    s!"m {showNats it.g.qs} | {bit it.coll} | {it.md.reg} | {bit it.md.collK} | {showNats it.md.basis} | {showPForm it.md.p0} | {showPForm it.md.p1}"
  else s!"g {it.g.tag} {showNats it.g.qs}"

def showEntries (l : List QItem) : String := " , ".intercalate (l.map showEntry)

/-- measurement tags are not part of the order check (pieces of a split measurement are new
    gate objects). -/
def normMeas (g : RGate) : RGate := if g.meas then { g with tag := measTag } else g

def handle : P String := do
  let cmd ← nextTok
  match cmd with
  | "REPLAY" =>
    let n ← nextNat
    let ne ← nextNat
    let mut es : List (Nat × Nat) := []
    for _ in [0:ne] do
      let a ← nextNat
      let b ← nextNat
      es := (a, b) :: es
    let input ← nextGates
    let fms ← nextGates
    let nact ← nextNat
    let mut s := init n
    let mut out := ""
    let mut guards := ""
    let mut maps := ""
    for _ in [0:nact] do
      let a ← nextAction
      guards := guards ++ bit (guard n es s a)
      s := step s a
      maps := maps ++ bit (mapsOk n s)
      let last := match s.routed.getLast? with
        | some g => showGate g
        | none => "-"
      out := out ++ s!"{showNats s.p2l} | {showNats s.l2p} | {s.routed.length} | {last} ;"
    let s' := appendFinal s fms
    let pick := pickCheck input s'.executed
    pure s!"{out} F {showGates s'.routed} L {showNats (finalLayout s')} # {guards} # {maps} # {bit pick}"
  | "STAR" =>
    let n ← nextNat
    let mid ← nextNat
    let q ← nextGates
    match starRoute n mid q, starTrace mid (init n) q with
    | some s, some as =>
      let es := ((List.range n).filter (· != mid)).map fun x => (mid, x)
      pure s!"{showGates s.routed} | {showNats s.l2p} # {bit (guardsOk n es (init n) as)}"
    | _, _ => pure "ERR"
  | "MROUTE" =>
    let n ← nextNat
    let ne ← nextNat
    let mut es : List (Nat × Nat) := []
    for _ in [0:ne] do
      let a ← nextNat
      let b ← nextNat
      es := (a, b) :: es
    let q ← nextItems
    let nact ← nextNat
    let mut s := minit n
    let mut wfb := ""
    let mut guards := ""
    for _ in [0:nact] do
      let a ← nextMAction
      wfb := wfb ++ bit (mwf n s a)
      guards := guards ++ bit (edgeGuard es s.base a.erase)
      s := mstep s a
    let d := detach q
    let out := addFlags (reattach s d.2)
    let body := (splitMeas (d.1.map (·.g))).map normMeas
    let pick := pickCheck body (s.base.executed.map normMeas)
    let multi := d.1.any fun it => it.g.meas && decide (it.g.qs.length > 1)
    let tre := if multi then "-" else bit (traceEqB (fun it : QItem => it.g.qs) d.1 s.executed)
    pure s!"{showEntries out} L {showNats (finalLayout s.base)} # {wfb} # {guards} # {bit pick} # {d.2.length} # {tre}"
  | "MSTAR" =>
    let n ← nextNat
    let mid ← nextNat
    let q ← nextItems
    match mstarRoute n mid q, mstarTrace mid (minit n) q with
    | some out, some as =>
      pure s!"{showEntries (addFlags out)} L {showNats (finalLayout (mrun (minit n) as).base)}"
    | _, _ => pure "ERR"
  | "FRONT" =>
    let nn ← nextNat
    let nodes ← nextNats nn
    let ne ← nextNat
    let mut es : List (Nat × Nat) := []
    for _ in [0:ne] do
      let a ← nextNat
      let b ← nextNat
      es := (a, b) :: es
    pure (showNats (frontLayer ⟨nodes, es.reverse⟩))
  | "FRONTX" =>
    let m ← nextNat
    let mut ps : List (List Nat) := []
    for _ in [0:m] do
      let k ← nextNat
      ps := (← nextNats k) :: ps
    let ke ← nextNat
    let ex ← nextNats ke
    let d := mkDag ps.reverse
    pure s!"{showNats (frontLayer (execAll d ex))} # {bit (legitB d ex)}"
  | "PICK" =>
    let a ← nextGates
    let b ← nextGates
    pure (bit (pickCheck a b))
  | "DAG" =>
    let m ← nextNat
    let mut ps : List (List Nat) := []
    for _ in [0:m] do
      let k ← nextNat
      ps := (← nextNats k) :: ps
    let es := dagEdges 0 ps.reverse
    pure (" ".intercalate (es.map fun (a, b) => s!"{a} {b}"))
  | "BLOCKS" =>
    let n ← nextNat
    let fuse ← nextNat
    let q ← nextGates
    match blockDecomposition n (fuse == 1) q with
    | none => pure "ERR"
    | some bs =>
      let showIG := fun (g : IG) => s!"{g.1} {showGate g.2}"
      let showB := fun (b : Block) =>
        s!"{showNats b.sortedQubits} | {" , ".intercalate (b.gates.map showIG)}"
      pure s!"{" ; ".intercalate (bs.map showB)} # {bit (pickCheck (splitMeas q) (flatGates bs))}"
  | "PREV" =>
    let q ← nextGates
    let k ← nextNat
    let qs ← nextNats k
    pure (showNats ((findPrev (withIds q) qs).map Prod.fst))
  | "SUCC" =>
    let q ← nextGates
    let k ← nextNat
    let qs ← nextNats k
    pure (showNats ((findSucc (withIds q) qs).map Prod.fst))
  | "ONQ" =>
    let q ← nextGates
    let x ← nextNat
    pure (showNats ((gatesOn (withIds q) x).map Prod.fst))
  | "" => pure ""
  | c => pure s!"bad-op {c}"

partial def loop (h : IO.FS.Stream) : IO Unit := do
  let line ← h.getLine
  if line.isEmpty then return ()
  let toks := (line.splitOn " ").filter (· ≠ "") |>.map (fun s => s.trimAscii.toString) |>.filter (· ≠ "")
  let (out, _) := handle.run { toks := toks.toArray }
  IO.println out
  loop h

def main : IO Unit := do
  loop (← IO.getStdin)
