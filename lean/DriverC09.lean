/-
  Line-protocol driver of the router model (QV/Model/Router.lean).
  One case per input line, one canonical answer line.
  Run with `lake env lean --run DriverC09.lean`.

  gate   := tag meas k q1..qk
  action := X k gate*k | S l0 l1 | Z
  REPLAY n ne (a b)*ne nin gate*nin nfm gate*nfm nact action*nact
      -> per action "p2l l2p len last ;" then "F" final routed list
         "#" guard bits "#" mapsOk bits "#" pickCheck(input, executed ++ final measurements)
  STAR n mid nq gate*nq         -> routed list "|" l2p "#" guards of the generated actions on the star graph (or ERR)
  PICK nin gate*nin nout gate*nout -> 0/1
  DAG m (k q1..qk)*m            -> edge list
  BLOCKS n fuse nq gate*nq      -> `block_decomposition`: ERR | blocks "qa qb | id tag meas k qs , ..." joined by " ; "
                                   "#" pickCheck(split queue, flattened blocks)
  PREV nq gate*nq k q1..qk      -> ids selected by `_find_previous_gates`
  SUCC nq gate*nq k q1..qk      -> ids selected by `_find_successive_gates`
  ONQ  nq gate*nq q             -> ids selected by `_gates_on_qubit`
-/
import QV.Model.Router
import QV.Model.Blocks
open QV.Router QV.Blocks

structure Rd where
  toks : Array String
  pos : Nat := 0

abbrev P := StateM Rd

def nextTok : P String := do
  let s ← get
  set { s with pos := s.pos + 1 }
  pure (s.toks.getD s.pos "")

def nextNat : P Nat := do
  let t ← nextTok
  pure ((t.toInt?.getD 0).toNat)

def nextNats (k : Nat) : P (List Nat) := do
  let mut out := []
  for _ in [0:k] do
    out := (← nextNat) :: out
  pure out.reverse

def nextGate : P RGate := do
  let tag ← nextNat
  let m ← nextNat
  let k ← nextNat
  let qs ← nextNats k
  pure ⟨tag, m == 1, qs⟩

def nextGates : P (List RGate) := do
  let k ← nextNat
  let mut out := []
  for _ in [0:k] do
    out := (← nextGate) :: out
  pure out.reverse

def nextAction : P Action := do
  let c ← nextTok
  match c with
  | "X" => pure (.exec (← nextGates))
  | "S" =>
    let a ← nextNat
    let b ← nextNat
    pure (.swap a b)
  | _ => pure .undo

def showNats (l : List Nat) : String := " ".intercalate (l.map toString)

def showGate (g : RGate) : String :=
  s!"{g.tag} {if g.meas then 1 else 0} {g.qs.length} {showNats g.qs}"

def showGates (gs : List RGate) : String := " , ".intercalate (gs.map showGate)

def bit (b : Bool) : String := if b then "1" else "0"

def handle : P String := do
  let cmd ← nextTok
  match cmd with
  | "REPLAY" =>
    let n ← nextNat
    let ne ← nextNat
    let mut es : List (Nat × Nat) := []
    for _ in [0:ne] do
      let a ← nextNat
      let b ← nextNat
      es := (a, b) :: es
    let input ← nextGates
    let fms ← nextGates
    let nact ← nextNat
    let mut s := init n
    let mut out := ""
    let mut guards := ""
    let mut maps := ""
    for _ in [0:nact] do
      let a ← nextAction
      guards := guards ++ bit (guard n es s a)
      s := step s a
      maps := maps ++ bit (mapsOk n s)
      let last := match s.routed.getLast? with
        | some g => showGate g
        | none => "-"
      out := out ++ s!"{showNats s.p2l} | {showNats s.l2p} | {s.routed.length} | {last} ;"
    let s' := appendFinal s fms
    let pick := pickCheck input s'.executed
    pure s!"{out} F {showGates s'.routed} L {showNats (finalLayout s')} # {guards} # {maps} # {bit pick}"
  | "STAR" =>
    let n ← nextNat
    let mid ← nextNat
    let q ← nextGates
    match starRoute n mid q, starTrace mid (init n) q with
    | some s, some as =>
      let es := ((List.range n).filter (· != mid)).map fun x => (mid, x)
      pure s!"{showGates s.routed} | {showNats s.l2p} # {bit (guardsOk n es (init n) as)}"
    | _, _ => pure "ERR"
  | "PICK" =>
    let a ← nextGates
    let b ← nextGates
    pure (bit (pickCheck a b))
  | "DAG" =>
    let m ← nextNat
    let mut ps : List (List Nat) := []
    for _ in [0:m] do
      let k ← nextNat
      ps := (← nextNats k) :: ps
    let es := dagEdges 0 ps.reverse
    pure (" ".intercalate (es.map fun (a, b) => s!"{a} {b}"))
  | "BLOCKS" =>
    let n ← nextNat
    let fuse ← nextNat
    let q ← nextGates
    match blockDecomposition n (fuse == 1) q with
    | none => pure "ERR"
    | some bs =>
      let showIG := fun (g : IG) => s!"{g.1} {showGate g.2}"
      let showB := fun (b : Block) =>
        s!"{showNats b.sortedQubits} | {" , ".intercalate (b.gates.map showIG)}"
      pure s!"{" ; ".intercalate (bs.map showB)} # {bit (pickCheck (splitMeas q) (flatGates bs))}"
  | "PREV" =>
    let q ← nextGates
    let k ← nextNat
    let qs ← nextNats k
    pure (showNats ((findPrev (withIds q) qs).map Prod.fst))
  | "SUCC" =>
    let q ← nextGates
    let k ← nextNat
    let qs ← nextNats k
    pure (showNats ((findSucc (withIds q) qs).map Prod.fst))
  | "ONQ" =>
    let q ← nextGates
    let x ← nextNat
    pure (showNats ((gatesOn (withIds q) x).map Prod.fst))
  | "" => pure ""
  | c => pure s!"bad-op {c}"

partial def loop (h : IO.FS.Stream) : IO Unit := do
  let line ← h.getLine
  if line.isEmpty then return ()
  let toks := (line.splitOn " ").filter (· ≠ "") |>.map (fun s => s.trimAscii.toString) |>.filter (· ≠ "")
  let (out, _) := handle.run { toks := toks.toArray }
  IO.println out
  loop h

def main : IO Unit := do
  loop (← IO.getStdin)
