/-
  Line-protocol driver for the Gate-object constructor part of property C17 (QV.Model.KrausInit).
  `lake env lean --run DriverC17c.lean`.  One case per line, all tokens naturals:
    <form> …  <nops> (<nctrl> <len> q*)*      form: 0 = [] ; 1 q = int ; 2 len q* = tuple ; 3 n (len q*)* = list
  answer: `E` (the constructor raises) or `nctrl:q,q ; … # t,t` (gates' qubits, channel target_qubits).
-/
import QV.Model.KrausInit
open QV.KrausInit

def takeList (toks : List Nat) : List Nat × List Nat :=
  match toks with
  | [] => ([], [])
  | n :: rest => (rest.take n, rest.drop n)

def takeLists : Nat → List Nat → List (List Nat) × List Nat
  | 0, toks => ([], toks)
  | k + 1, toks =>
    let (l, rest) := takeList toks
    let (ls, rest') := takeLists k rest
    (l :: ls, rest')

def takeGates : Nat → List Nat → List G
  | 0, _ => []
  | k + 1, toks =>
    match toks with
    | nc :: rest =>
      let (l, rest') := takeList rest
      { controls := l.take nc, targets := l.drop nc } :: takeGates k rest'
    | [] => []

def commas (l : List Nat) : String := ",".intercalate (l.map toString)

def answer (toks : List Nat) : String :=
  let (arg, rest) : QArg × List Nat :=
    match toks with
    | 0 :: r => (.list [], r)
    | 1 :: q :: r => (.int q, r)
    | 2 :: r => let (l, r') := takeList r; (.tuple l, r')
    | 3 :: n :: r => let (ls, r') := takeLists n r; (.list ls, r')
    | _ => (.list [], [])
  match rest with
  | nops :: r =>
    match build arg (takeGates nops r) with
    | none => "E"
    | some b => " ; ".intercalate (b.gates.map fun g => s!"{g.controls.length}:{commas g.qubits}") ++ " # " ++ commas b.targetQubits
  | [] => "bad-op"

partial def loop (h : IO.FS.Stream) : IO Unit := do
  let line ← h.getLine
  if line.isEmpty then return ()
  let toks := (line.trimAscii.toString.splitOn " ").filterMap String.toNat?
  IO.println (answer toks)
  loop h

def main : IO Unit := do loop (← IO.getStdin)
