/-
  Line-protocol driver of the measurement model (QV/Model/Measure.lean) for property C03.
  One case per input line (whitespace separated tokens), one canonical answer per line.
  Run with `lake env lean --run DriverC03.lean`.
-/
import QV.Core.GI
import QV.Model.Table
import QV.Model.Sim
import QV.Model.Measure
open QV

structure Rd where
  toks : Array String
  pos : Nat := 0

abbrev P := StateM Rd

def nextTok : P String := do
  let s ← get
  set { s with pos := s.pos + 1 }
  pure (s.toks.getD s.pos "")

def nextInt : P Int := do
  let t ← nextTok
  pure (t.toInt?.getD 0)

def nextNat : P Nat := do
  let t ← nextInt
  pure t.toNat

def nextNats (k : Nat) : P (List Nat) := do
  let mut out := []
  for _ in [0:k] do
    out := (← nextNat) :: out
  pure out.reverse

/-- length-prefixed list of naturals -/
def nextNatList : P (List Nat) := do
  let k ← nextNat
  nextNats k

def nextGI : P GI := do
  let a ← nextInt
  let b ← nextInt
  pure ⟨a, b⟩

def nextGIs (k : Nat) : P (Array GI) := do
  let mut out := Array.mkEmpty k
  for _ in [0:k] do
    out := out.push (← nextGI)
  pure out

/-- gate: k nc t1..tk c1..cnc then 2^k*2^k entries (row major). -/
def nextGate : P (MGate GI) := do
  let k ← nextNat
  let nc ← nextNat
  let ts ← nextNats k
  let cs ← nextNats nc
  let d := 2 ^ k
  let m ← nextGIs (d * d)
  pure { mat := fun i j => m.getD (i * d + j) 0, targets := ts, controls := cs }

def showGIs (a : Array GI) : String :=
  " ".intercalate (a.toList.map GI.toStr)

def showNats (l : List Nat) : String := " ".intercalate (l.map toString)
def showInts (l : List Int) : String := " ".intercalate (l.map toString)

def showFreq (k : Nat) (F : Freq) : String := showNats ((List.range (2 ^ k)).map F)

def showOut (c : RCfg) : ROut → String
  | .rows t => showNats t.flatten
  | .decs t => showNats t
  | .regRows t => " ; ".intercalate ((List.range c.nregs).map fun i => showNats (t i).flatten)
  | .regDecs t => " ; ".intercalate ((List.range c.nregs).map fun i => showNats (t i))
  | .freq F => showFreq c.k F
  | .regFreq F => " ; ".intercalate ((List.range c.nregs).map fun i => showFreq (c.reg i).length (F i))

/-- per-register frequency of a single gate is printed over that register's key range -/
def showOutFor (c : RCfg) (op : ROp) (o : ROut) : String :=
  match op, o with
  | .regFreqs i _, .freq F => showFreq (c.reg i).length F
  | _, o => showOut c o

def nextROp : P ROp := do
  let code ← nextNat
  let a ← nextNat
  let b ← nextNat
  pure <| match code with
    | 0 => .samples (a == 1) (b == 1)
    | 1 => .freqs (a == 1) (b == 1)
    | 2 => .regSamples a (b == 1)
    | _ => .regFreqs a (b == 1)

def nextCOp : P (COp GI) := do
  let t ← nextTok
  match t with
  | "G" => pure (.gate (← nextGate))
  | "M" =>
    let m ← nextNat
    let ts ← nextNats m
    let bits ← nextNats m
    pure (.measure ts bits)
  | _ =>
    let m ← nextNat
    let j ← nextNat
    pure (.cgate (← nextGate) m j)

/-- materialise after every step so closures stay shallow -/
def stepSV (n : Nat) (st : List (List Nat) × Array GI) (op : COp GI) : List (List Nat) × Array GI :=
  let (recs, a) := st
  match op with
  | .measure _ bits => (recs ++ [bits], tableOf n (crunSV [op] recs (ofTable n a)))
  | _ => (recs, tableOf n (crunSV [op] recs (ofTable n a)))

def stepDM (n : Nat) (st : List (List Nat) × Array GI) (op : COp GI) : List (List Nat) × Array GI :=
  let (recs, a) := st
  let ρ := ofTable2 n a
  match op with
  | .measure _ bits => (recs ++ [bits], tableOf2 n (crunDM GI.conj [op] recs ρ))
  | .gate g =>
    let r1 := tableOf2 n (applyRight GI.conj g ρ)
    (recs, tableOf2 n (applyLeft g (ofTable2 n r1)))
  | .cgate g m j =>
    if bitOf recs m j = 1 then
      let r1 := tableOf2 n (applyRight GI.conj g ρ)
      (recs, tableOf2 n (applyLeft g (ofTable2 n r1)))
    else (recs, a)

def handle : P String := do
  let cmd ← nextTok
  match cmd with
  | "PROBS" =>
    let n ← nextNat
    let qs ← nextNatList
    let ψ ← nextGIs (2 ^ n)
    let w : Lab → Int := fun x => GI.abs2 (ofTable n ψ x)
    pure (showInts ((List.range (2 ^ qs.length)).map (calculateProbabilities n qs w)))
  | "PROBSDM" =>
    let n ← nextNat
    let qs ← nextNatList
    let ρ ← nextGIs (2 ^ n * 2 ^ n)
    let p := calculateProbabilitiesDM n qs (ofTable2 n ρ)
    pure (showGIs ((List.range (2 ^ qs.length)).map p).toArray)
  | "BIN" =>
    let k ← nextNat
    let ss ← nextNatList
    pure (showNats (ss.map (samplesToBinary k)).flatten)
  | "DEC" =>
    let k ← nextNat
    let cnt ← nextNat
    let mut out := []
    for _ in [0:cnt] do
      out := samplesToDecimal (← nextNats k) :: out
    pure (showNats out.reverse)
  | "SFREQ" =>
    let k ← nextNat
    let nb ← nextNat
    let mut bs := []
    for _ in [0:nb] do
      bs := (← nextNatList) :: bs
    pure (showFreq k (sampleFrequencies bs.reverse))
  | "BATCH" =>
    let nshots ← nextNat
    let b ← nextNat
    pure (showNats (batchSizes nshots b))
  | "VIEWS" =>
    let nregs ← nextNat
    let mut regs : Array (List Nat) := #[]
    for _ in [0:nregs] do
      regs := regs.push (← nextNatList)
    let c : RCfg := { nregs := nregs, reg := fun i => regs.getD i [] }
    let init ← nextNat
    let shots ← nextNatList
    let nb ← nextNat
    let mut bs := []
    for _ in [0:nb] do
      bs := (← nextNatList) :: bs
    let perm ← nextNatList
    let nops ← nextNat
    let mut ops := []
    for _ in [0:nops] do
      ops := (← nextROp) :: ops
    let opl := ops.reverse
    let o : Oracle := { shots := shots, batches := bs.reverse, perm := perm }
    let s0 : RState := if init == 1 then RState.withSamples c shots else {}
    let outs := rrun c o s0 opl
    pure (" | ".intercalate ((opl.zip outs).map fun (op, out) => showOutFor c op out))
  | "COLL" =>
    let n ← nextNat
    let qs ← nextNatList
    let shot ← nextNat
    let ψ ← nextGIs (2 ^ n)
    pure (showGIs (tableOf n (collapseState qs shot (ofTable n ψ))))
  | "COLLDM" =>
    let n ← nextNat
    let qs ← nextNatList
    let shot ← nextNat
    let ρ ← nextGIs (2 ^ n * 2 ^ n)
    pure (showGIs (tableOf2 n (collapseDM qs shot (ofTable2 n ρ))))
  | "RECBITS" =>
    let ts ← nextNatList
    let shot ← nextNat
    pure (showNats (recordedBits ts shot))
  | "CIRC" =>
    let dm ← nextNat
    let n ← nextNat
    let nops ← nextNat
    let mut ops := []
    for _ in [0:nops] do
      ops := (← nextCOp) :: ops
    let opl := ops.reverse
    if dm == 1 then
      let ρ ← nextGIs (2 ^ n * 2 ^ n)
      pure (showGIs (opl.foldl (stepDM n) ([], ρ)).2)
    else
      let ψ ← nextGIs (2 ^ n)
      pure (showGIs (opl.foldl (stepSV n) ([], ψ)).2)
  | "" => pure ""
  | c => pure s!"bad-op {c}"

partial def loop (h : IO.FS.Stream) : IO Unit := do
  let line ← h.getLine
  if line.isEmpty then return ()
  let toks := (line.splitOn " ").filter (· ≠ "") |>.map (fun s => s.trimAscii.toString) |>.filter (· ≠ "")
  let (out, _) := handle.run { toks := toks.toArray }
  IO.println out
  loop h

def main : IO Unit := do
  loop (← IO.getStdin)
