/-
  Line-protocol driver of the measurement model (QV/Model/Measure.lean) for property C03.
  One case per input line (whitespace separated tokens), one canonical answer per line.
  Run with `lake env lean --run DriverC03.lean`.
-/
import QV.Core.GI
import QV.Model.Table
import QV.Model.Sim
import QV.Model.Measure
import QV.Model.CircuitAdd
import QV.Model.Repeated
import QV.Model.MeasureProbs
import QV.Model.Bitflip
open QV

structure Rd where
  toks : Array String
  pos : Nat := 0

abbrev P := StateM Rd

def nextTok : P String := do
  let s ← get
  set { s with pos := s.pos + 1 }
  pure (s.toks.getD s.pos "")

def nextInt : P Int := do
  let t ← nextTok
  pure (t.toInt?.getD 0)

def nextNat : P Nat := do
  let t ← nextInt
  pure t.toNat

def nextNats (k : Nat) : P (List Nat) := do
  let mut out := []
  for _ in [0:k] do
    out := (← nextNat) :: out
  pure out.reverse

/-- length-prefixed list of naturals -/
def nextNatList : P (List Nat) := do
  let k ← nextNat
  nextNats k

def nextGI : P GI := do
  let a ← nextInt
  let b ← nextInt
  pure ⟨a, b⟩

def nextGIs (k : Nat) : P (Array GI) := do
  let mut out := Array.mkEmpty k
  for _ in [0:k] do
    out := out.push (← nextGI)
  pure out

/-- gate: k nc t1..tk c1..cnc then 2^k*2^k entries (row major). -/
def nextGate : P (MGate GI) := do
  let k ← nextNat
  let nc ← nextNat
  let ts ← nextNats k
  let cs ← nextNats nc
  let d := 2 ^ k
  let m ← nextGIs (d * d)
  pure { mat := fun i j => m.getD (i * d + j) 0, targets := ts, controls := cs }

def showGIs (a : Array GI) : String :=
  " ".intercalate (a.toList.map GI.toStr)

def showNats (l : List Nat) : String := " ".intercalate (l.map toString)
def showInts (l : List Int) : String := " ".intercalate (l.map toString)

def showFreq (k : Nat) (F : Freq) : String := showNats ((List.range (2 ^ k)).map F)

def showOut (c : RCfg) : ROut → String
  | .rows t => showNats t.flatten
  | .decs t => showNats t
  | .regRows t => " ; ".intercalate ((List.range c.nregs).map fun i => showNats (t i).flatten)
  | .regDecs t => " ; ".intercalate ((List.range c.nregs).map fun i => showNats (t i))
  | .freq F => showFreq c.k F
  | .regFreq F => " ; ".intercalate ((List.range c.nregs).map fun i => showFreq (c.reg i).length (F i))

/-- per-register frequency of a single gate is printed over that register's key range -/
def showOutFor (c : RCfg) (op : ROp) (o : ROut) : String :=
  match op, o with
  | .regFreqs i _, .freq F => showFreq (c.reg i).length F
  | _, o => showOut c o

def nextROp : P ROp := do
  let code ← nextNat
  let a ← nextNat
  let b ← nextNat
  pure <| match code with
    | 0 => .samples (a == 1) (b == 1)
    | 1 => .freqs (a == 1) (b == 1)
    | 2 => .regSamples a (b == 1)
    | _ => .regFreqs a (b == 1)

def nextCOp : P (COp GI) := do
  let t ← nextTok
  match t with
  | "G" => pure (.gate (← nextGate))
  | "M" =>
    let m ← nextNat
    let ts ← nextNats m
    let bits ← nextNats m
    pure (.measure ts bits)
  | _ =>
    let m ← nextNat
    let j ← nextNat
    pure (.cgate (← nextGate) m j)

/-! ### Circuit.add bookkeeping -/

def dfltName (k : Nat) : String := "register" ++ toString k

/-- item: `G k q…` | `M k t… hasname name collapse nrot r…` (name token ignored if hasname = 0) -/
def nextItem : P (CAdd.Item String) := do
  let t ← nextTok
  match t with
  | "G" => pure (.gate (← nextNatList))
  | _ =>
    let ts ← nextNatList
    let hn ← nextNat
    let nm ← nextTok
    let c ← nextNat
    let rot ← nextNatList
    let name := if hn == 1 then some nm else none
    if rot.isEmpty then pure (.meas ts name (c == 1)) else pure (.measB ts name (c == 1) rot)

def commaNats (l : List Nat) : String := ",".intercalate (l.map toString)

def showAddState (st : CAdd.St String) : String :=
  let ents := (List.range st.queue.length).map fun i =>
    match st.queue[i]? with
    | some e =>
      if e.isM then s!"M:{commaNats e.qubits}:{e.name.getD "?"}:{if st.coll i then 1 else 0}"
      else s!"G:{commaNats e.qubits}"
    | none => "?"
  let tup := (CAdd.measurementTuples st).map fun (nm, ts) => s!"{nm.getD "?"}={commaNats ts}"
  " ".intercalate ents ++ " | " ++ showNats st.meas ++ " | " ++ (if st.hasCollapse then "1" else "0")
    ++ " | " ++ " ".intercalate tup

/-- add item by item; on rejection report the index of the rejected item and the state before -/
def runAdd : Nat → CAdd.St String → List (CAdd.Item String) → String
  | _, st, [] => showAddState st
  | k, st, x :: xs =>
    match CAdd.addItem dfltName st x with
    | none =>
      -- the basis rotations of a rejected measurement are already in the queue
      let st0 := match x with
        | .measB _ _ _ rot => rot.foldl (fun s q => CAdd.addGate s [q]) st
        | _ => st
      s!"ERR {k} | " ++ showNats st0.meas
    | some st' => runAdd (k + 1) st' xs

/-! ### execute_circuit_repeated -/

/-- state-vector simulator on materialised tables -/
def svSemT (n : Nat) : Rep.Sem (Array GI) (MGate GI) :=
  { gate := fun g a => tableOf n (applyGate g (ofTable n a)),
    coll := fun ts d a => tableOf n (collapseState ts d (ofTable n a)) }

/-- density-matrix simulator on materialised tables -/
def dmSemT (n : Nat) : Rep.Sem (Array GI) (MGate GI) :=
  { gate := fun g a =>
      let r1 := tableOf2 n (applyRight GI.conj g (ofTable2 n a))
      tableOf2 n (applyLeft g (ofTable2 n r1)),
    coll := fun ts d a => tableOf2 n (collapseDM ts d (ofTable2 n a)) }

def nextQOp : P (Rep.QOp (MGate GI)) := do
  let t ← nextTok
  match t with
  | "G" => pure (.gate (← nextGate))
  | "M" =>
    let ts ← nextNatList
    let c ← nextNat
    pure (.meas ts (c == 1))
  | "P" =>
    -- gate with symbolic parameters: nuses (m j)* ntab gate*  (table indexed by the symbol values, big-endian)
    let nu ← nextNat
    let mut uses : List (Nat × Nat) := []
    for _ in [0:nu] do
      let m ← nextNat
      let j ← nextNat
      uses := uses ++ [(m, j)]
    let nt ← nextNat
    let mut tab : Array (MGate GI) := #[]
    for _ in [0:nt] do
      tab := tab.push (← nextGate)
    let dflt : MGate GI := { mat := fun _ _ => 0, targets := [], controls := [] }
    pure (.pgate (fun bits => tab.getD (samplesToDecimal bits) dflt) uses)
  | _ =>
    let m ← nextNat
    let j ← nextNat
    pure (.cgate (← nextGate) m j)

def bitStr (r : List Nat) : String := String.join (r.map toString)

/-- qubit lists on which one shot draws: sorted targets of the collapsing measurements, then
the terminal registers concatenated -/
def drawQubits : List (Rep.QOp (MGate GI)) → List (List Nat)
  | [] => []
  | .meas ts true :: ops => sortAsc ts :: drawQubits ops
  | _ :: ops => drawQubits ops

def nMeasOps : List (Rep.QOp (MGate GI)) → Nat
  | [] => 0
  | .meas _ _ :: ops => nMeasOps ops + 1
  | _ :: ops => nMeasOps ops

def showRep (dm : Bool) (n : Nat) (ops : List (Rep.QOp (MGate GI))) (o : Rep.Out (Array GI)) : String :=
  let rows := if o.rows.isEmpty then "-" else " ".intercalate (o.rows.map bitStr)
  let caches := " ".intercalate ((List.range (nMeasOps ops)).map fun i =>
    match o.caches i with
    | none => "-"
    | some t => if t.isEmpty then "e" else ",".intercalate (t.map bitStr))
  let k := (Rep.globOf ops).length
  let glob := Rep.globOf ops
  let dq := drawQubits ops ++ (if (Rep.finals ops 0).isEmpty then [] else [glob])
  let probsOf (qs : List Nat) (a : Array GI) : List Int :=
    if dm then (List.range (2 ^ qs.length)).map fun j => (calculateProbabilitiesDM n qs (ofTable2 n a) j).re
    else (List.range (2 ^ qs.length)).map (calculateProbabilities n qs (fun x => GI.abs2 (ofTable n a x)))
  let seen := " ; ".intercalate (o.seen.map fun sh =>
    " , ".intercalate ((dq.zip sh).map fun (qs, a) => showInts (probsOf qs a)))
  rows ++ " | " ++ caches ++ " | " ++ showFreq k o.repFreq ++ " | " ++ toString o.tape.length ++ " | " ++ seen

def nextPOp : P POp := do
  let code ← nextNat
  if code == 4 then
    pure (.probs (← nextNatList))
  else
    let a ← nextNat
    let b ← nextNat
    pure <| .acc <| match code with
      | 0 => .samples (a == 1) (b == 1)
      | 1 => .freqs (a == 1) (b == 1)
      | 2 => .regSamples a (b == 1)
      | _ => .regFreqs a (b == 1)

def showPAns (c : RCfg) (op : POp) : PAns → String
  | .table t => showNats t
  | .view out =>
    match op with
    | .acc rop => showOutFor c rop out
    | _ => "?"

/-! ### bit-flip readout noise -/

/-- probabilities / uniform numbers as numerators over 64 -/
structure Fx where
  n : Int
deriving DecidableEq

instance : Zero Fx := ⟨⟨0⟩⟩
instance : One Fx := ⟨⟨64⟩⟩
instance : Add Fx := ⟨fun a b => ⟨a.n + b.n⟩⟩
instance : LT Fx := ⟨fun a b => a.n < b.n⟩
instance : DecidableLT Fx := fun a b => inferInstanceAs (Decidable (a.n < b.n))

def nextFx : P Fx := do
  pure ⟨← nextInt⟩

def nextForm : P (BF.PForm Fx) := do
  let t ← nextTok
  match t with
  | "N" => pure .none
  | "S" => pure (.scalar (← nextFx))
  | "L" =>
    let k ← nextNat
    let mut out : List Fx := []
    for _ in [0:k] do
      out := out ++ [← nextFx]
    pure (.list out)
  | "D" =>
    let k ← nextNat
    let mut out : List (Nat × Fx) := []
    for _ in [0:k] do
      let q ← nextNat
      let v ← nextFx
      out := out ++ [(q, v)]
    pure (.dict out)
  | _ => pure .other

def showErr : BF.Err → String
  | .value => "ValueError"
  | .key => "KeyError"
  | .type => "TypeError"
  | .notImplemented => "NotImplementedError"

def showFMap (m : BF.FMap Fx) : String := " ".intercalate (m.map fun kv => s!"{kv.1}:{kv.2.n}")
def showFxs (l : List Fx) : String := " ".intercalate (l.map fun x => toString x.n)

def nextFxRows (rows k : Nat) : P (List (List Fx)) := do
  let mut out : List (List Fx) := []
  for _ in [0:rows] do
    let mut r : List Fx := []
    for _ in [0:k] do
      r := r ++ [← nextFx]
    out := out ++ [r]
  pure out

/-- materialise after every step so closures stay shallow -/
def stepSV (n : Nat) (st : List (List Nat) × Array GI) (op : COp GI) : List (List Nat) × Array GI :=
  let (recs, a) := st
  match op with
  | .measure _ bits => (recs ++ [bits], tableOf n (crunSV [op] recs (ofTable n a)))
  | _ => (recs, tableOf n (crunSV [op] recs (ofTable n a)))

def stepDM (n : Nat) (st : List (List Nat) × Array GI) (op : COp GI) : List (List Nat) × Array GI :=
  let (recs, a) := st
  let ρ := ofTable2 n a
  match op with
  | .measure _ bits => (recs ++ [bits], tableOf2 n (crunDM GI.conj [op] recs ρ))
  | .gate g =>
    let r1 := tableOf2 n (applyRight GI.conj g ρ)
    (recs, tableOf2 n (applyLeft g (ofTable2 n r1)))
  | .cgate g m j =>
    if bitOf recs m j = 1 then
      let r1 := tableOf2 n (applyRight GI.conj g ρ)
      (recs, tableOf2 n (applyLeft g (ofTable2 n r1)))
    else (recs, a)

def handle : P String := do
  let cmd ← nextTok
  match cmd with
  | "PROBS" =>
    let n ← nextNat
    let qs ← nextNatList
    let ψ ← nextGIs (2 ^ n)
    let w : Lab → Int := fun x => GI.abs2 (ofTable n ψ x)
    pure (showInts ((List.range (2 ^ qs.length)).map (calculateProbabilities n qs w)))
  | "PROBSDM" =>
    let n ← nextNat
    let qs ← nextNatList
    let ρ ← nextGIs (2 ^ n * 2 ^ n)
    let p := calculateProbabilitiesDM n qs (ofTable2 n ρ)
    pure (showGIs ((List.range (2 ^ qs.length)).map p).toArray)
  | "BIN" =>
    let k ← nextNat
    let ss ← nextNatList
    pure (showNats (ss.map (samplesToBinary k)).flatten)
  | "DEC" =>
    let k ← nextNat
    let cnt ← nextNat
    let mut out := []
    for _ in [0:cnt] do
      out := samplesToDecimal (← nextNats k) :: out
    pure (showNats out.reverse)
  | "SFREQ" =>
    let k ← nextNat
    let nb ← nextNat
    let mut bs := []
    for _ in [0:nb] do
      bs := (← nextNatList) :: bs
    pure (showFreq k (sampleFrequencies bs.reverse))
  | "BATCH" =>
    let nshots ← nextNat
    let b ← nextNat
    pure (showNats (batchSizes nshots b))
  | "VIEWS" =>
    let nregs ← nextNat
    let mut regs : Array (List Nat) := #[]
    for _ in [0:nregs] do
      regs := regs.push (← nextNatList)
    let c : RCfg := { nregs := nregs, reg := fun i => regs.getD i [] }
    let init ← nextNat
    let shots ← nextNatList
    let nb ← nextNat
    let mut bs := []
    for _ in [0:nb] do
      bs := (← nextNatList) :: bs
    let perm ← nextNatList
    let nops ← nextNat
    let mut ops := []
    for _ in [0:nops] do
      ops := (← nextROp) :: ops
    let opl := ops.reverse
    let o : Oracle := { shots := if init == 2 then [] else shots, batches := bs.reverse, perm := perm }
    let s0 : RState := if init == 1 then RState.withSamples c shots
      else if init == 2 then RState.withFreq (fun v => shots.getD v 0) else {}
    let outs := rrun c o s0 opl
    pure (" | ".intercalate ((opl.zip outs).map fun (op, out) => showOutFor c op out))
  | "BFMAP" =>
    let ts ← nextNatList
    let col ← nextNat
    let f0 ← nextForm
    let f1 ← nextForm
    match BF.mkMaps { targets := ts, collapse := col == 1, p0 := f0, p1 := f1 } with
    | .error e => pure ("ERR " ++ showErr e)
    | .ok (m0, m1) =>
      let g : BF.MG Fx := { targets := ts, m0 := m0, m1 := m1 }
      pure (showFMap m0 ++ " | " ++ showFMap m1 ++ " | " ++ (if BF.hasNoise g then "1" else "0"))
  | "BFVIEWS" =>
    -- nregs (targets form0 form1)* init shots nb batches perm nu (u rows of k) nops ops
    let nregs ← nextNat
    let mut regs : Array (List Nat) := #[]
    let mut gs : List (BF.MG Fx) := []
    let mut err : Option String := none
    for i in [0:nregs] do
      let ts ← nextNatList
      let f0 ← nextForm
      let f1 ← nextForm
      regs := regs.push ts
      match BF.mkMaps { targets := ts, p0 := f0, p1 := f1 } with
      | .error e => if err.isNone then err := some s!"ERR {i} {showErr e}"
      | .ok (m0, m1) => gs := gs ++ [{ targets := ts, m0 := m0, m1 := m1 }]
    let c : RCfg := { nregs := nregs, reg := fun i => regs.getD i [] }
    let init ← nextNat
    let shots ← nextNatList
    let nb ← nextNat
    let mut bs := []
    for _ in [0:nb] do
      bs := (← nextNatList) :: bs
    let perm ← nextNatList
    let nu ← nextNat
    let u ← nextFxRows nu c.k
    let nops ← nextNat
    let mut ops := []
    for _ in [0:nops] do
      ops := (← nextROp) :: ops
    let opl := ops.reverse
    match err with
    | some e => pure e
    | none =>
      let G := BF.globalGate gs
      let nz := BF.noiseOf G
      let o : Oracle := { shots := if init == 2 then [] else shots, batches := bs.reverse, perm := perm }
      let s0 : RState := if init == 1 then RState.withSamples c shots
        else if init == 2 then RState.withFreq (fun v => shots.getD v 0) else {}
      let outs := BF.nrun c nz o u s0 opl
      pure (showNats G.targets ++ " ; " ++ showFxs nz.p0 ++ " ; " ++ showFxs nz.p1 ++ " ; "
        ++ (if nz.on then "1" else "0") ++ " | "
        ++ " | ".intercalate ((opl.zip outs).map fun (op, out) => showOutFor c op out))
  | "BFAPPLY" =>
    let glob ← nextNatList
    let f0 ← nextForm
    let f1 ← nextForm
    let nrows ← nextNat
    let mut rows : List (List Nat) := []
    for _ in [0:nrows] do
      rows := rows ++ [← nextNats glob.length]
    let u ← nextFxRows nrows glob.length
    match BF.applyBitflipsAPI glob f0 f1 u rows with
    | .error e => pure ("ERR " ++ showErr e)
    | .ok t => pure (showNats t.flatten)
  | "BINKEY" =>
    let k ← nextNat
    let v ← nextNat
    pure (String.join ((BF.binKey k v).map toString) ++ " " ++ toString (samplesToDecimal (BF.binKey k v)))
  | "COLL" =>
    let n ← nextNat
    let qs ← nextNatList
    let shot ← nextNat
    let ψ ← nextGIs (2 ^ n)
    pure (showGIs (tableOf n (collapseState qs shot (ofTable n ψ))))
  | "COLLDM" =>
    let n ← nextNat
    let qs ← nextNatList
    let shot ← nextNat
    let ρ ← nextGIs (2 ^ n * 2 ^ n)
    pure (showGIs (tableOf2 n (collapseDM qs shot (ofTable2 n ρ))))
  | "RECBITS" =>
    let ts ← nextNatList
    let shot ← nextNat
    pure (showNats (recordedBits ts shot))
  | "CIRC" =>
    let dm ← nextNat
    let n ← nextNat
    let nops ← nextNat
    let mut ops := []
    for _ in [0:nops] do
      ops := (← nextCOp) :: ops
    let opl := ops.reverse
    if dm == 1 then
      let ρ ← nextGIs (2 ^ n * 2 ^ n)
      pure (showGIs (opl.foldl (stepDM n) ([], ρ)).2)
    else
      let ψ ← nextGIs (2 ^ n)
      pure (showGIs (opl.foldl (stepSV n) ([], ψ)).2)
  | "REP" =>
    let dm ← nextNat
    let n ← nextNat
    let nshots ← nextNat
    let nops ← nextNat
    let mut ops := []
    for _ in [0:nops] do
      ops := (← nextQOp) :: ops
    let opl := ops.reverse
    let tape ← nextNatList
    if dm == 1 then
      let ρ ← nextGIs (2 ^ n * 2 ^ n)
      pure (showRep true n opl (Rep.execRepeated (dmSemT n) opl nshots tape ρ))
    else
      let ψ ← nextGIs (2 ^ n)
      pure (showRep false n opl (Rep.execRepeated (svSemT n) opl nshots tape ψ))
  | "REPWF" =>
    let nops ← nextNat
    let mut ops := []
    for _ in [0:nops] do
      ops := (← nextQOp) :: ops
    let opl := ops.reverse
    pure s!"{if Rep.wellFormed opl 0 (fun _ => false) then 1 else 0} {Rep.need opl}"
  | "PROBH" =>
    let nregs ← nextNat
    let mut regs : Array (List Nat) := #[]
    for _ in [0:nregs] do
      regs := regs.push (← nextNatList)
    let c : RCfg := { nregs := nregs, reg := fun i => regs.getD i [] }
    let rep ← nextNat
    let T ← nextNatList
    let nops ← nextNat
    let mut ops := []
    for _ in [0:nops] do
      ops := (← nextPOp) :: ops
    let opl := ops.reverse
    let o : Oracle := { shots := [], batches := [], perm := [] }
    let s0 : PState := if rep == 1 then PState.repeated c T else { base := RState.withSamples c T }
    let outs := prun c o s0 opl
    pure (" | ".intercalate ((opl.zip outs).map fun (op, out) => showPAns c op out))
  | "SFREQRLE" =>
    -- batches given run-length encoded: nb, then per batch nruns (value count)*
    let k ← nextNat
    let nb ← nextNat
    let mut bs : List (List Nat) := []
    for _ in [0:nb] do
      let nr ← nextNat
      let mut b : List Nat := []
      for _ in [0:nr] do
        let v ← nextNat
        let cnt ← nextNat
        b := b ++ List.replicate cnt v
      bs := b :: bs
    let bl := bs.reverse
    pure (showFreq k (sampleFrequencies bl) ++ " | " ++ showNats (bl.map List.length))
  | "ADD" =>
    let nit ← nextNat
    let mut its := []
    for _ in [0:nit] do
      its := (← nextItem) :: its
    pure (runAdd 0 {} its.reverse)
  | "ADDSPEC" =>
    -- the closed-form SPEC of the theorems, for cross-checking the fold inside the driver
    let nit ← nextNat
    let mut its := []
    for _ in [0:nit] do
      its := (← nextItem) :: its
    let fl := CAdd.flat its.reverse
    let fin := (List.range fl.length).filter (CAdd.isFinal fl)
    let col := (List.range fl.length).filter (CAdd.collSpec fl)
    pure (showNats fin ++ " | " ++ showNats col)
  | "" => pure ""
  | c => pure s!"bad-op {c}"

partial def loop (h : IO.FS.Stream) : IO Unit := do
  let line ← h.getLine
  if line.isEmpty then return ()
  let toks := (line.splitOn " ").filter (· ≠ "") |>.map (fun s => s.trimAscii.toString) |>.filter (· ≠ "")
  let (out, _) := handle.run { toks := toks.toArray }
  IO.println out
  loop h

def main : IO Unit := do
  loop (← IO.getStdin)
