/-
  Line-protocol driver for C08: runs the executable model of qibo's multi-controlled-X
  decomposition (QV/Model/XDecompose.lean) on one case per input line.
  Run with `lake env lean --run DriverC08.lean`.

  XDEC ut m c1..cm t nf f1..fnf
      → gate list of `X(t).controlled_by(c…).decompose(f…, use_toffolis=ut)` as tokens
        `x t | cx c t | ccx c0 c1 t | ry t k` (k in units of π/4), or the error class.
  CDEC ut nf f1..fnf ng (0 id | 1 m c1..cm t)*
      → `Circuit.decompose(*free)` of a queue of multi-controlled X gates (kind 1) and opaque
        gates that decompose to themselves (kind 0).
  DISP mode ut nf f.. ncls (fam nctl fb1 fb2)* ntemp (cls par ng gobj*)* gobj
      → the glue of `gate.decompose` (QV/Model/DecomposeDispatch.lean).  gobj = `cls par ni init.. nc ctl..
        nt tgt.. cb`; fam 0 plain | 1 xgate | 2 selfret | 3 table; fb = fall-back class of controlled_by with 1 / 2 controls or -1; mode 0 `decompose(*free)`,
        1 `standard_decompositions(gate)`, 2 two levels of `decompose`, 3 the in-place variant
        (C08-8), 4 the attach-controls variant (C08-9), 5 route.  Prints the returned gate objects.
  ACT n ng (gate)* m c1..cm t na i1..ina
      → run the given gate list (kinds: 0 x t | 1 cx c t | 2 ccx c0 c1 t | 3 rccx c0 c1 t)
        with `runS` on the listed basis states of an n-qubit register (na = 0: all 2^n) and
        compare with the specification `mcxSpec` and sign +; prints `ok <count>` or the first
        failing basis state.
-/
import QV.Model.XDecompose
import QV.Model.DecomposeDispatch
open QV

structure Rd where
  toks : Array String
  pos : Nat := 0

abbrev P := StateM Rd

def nextTok : P String := do
  let s ← get
  set { s with pos := s.pos + 1 }
  pure (s.toks.getD s.pos "")

def nextInt : P Int := do
  let t ← nextTok
  pure (t.toInt?.getD 0)

def nextNat : P Nat := do
  let t ← nextInt
  pure t.toNat

def nextNats (k : Nat) : P (List Nat) := do
  let mut out := []
  for _ in [0:k] do
    out := (← nextNat) :: out
  pure out.reverse

/-- tokens of one model gate; the congruent Toffoli is printed as the 7 gates the real
    `TOFFOLI.congruent(use_toffolis=False)` returns. -/
def gateToks : CGate → List String
  | .x t => [s!"x {t}"]
  | .cnot c t => [s!"cx {c} {t}"]
  | .toffoli c0 c1 t => [s!"ccx {c0} {c1} {t}"]
  | .rtof c0 c1 t =>
    [s!"ry {t} -1", s!"cx {c1} {t}", s!"ry {t} -1", s!"cx {c0} {t}", s!"ry {t} 1", s!"cx {c1} {t}", s!"ry {t} 1"]

def showGates (gs : List CGate) : String := " | ".intercalate (gs.flatMap gateToks)

def showRes : XRes → String
  | .ok gs => showGates gs
  | .valueError => "ValueError"
  | .notImplemented => "NotImplementedError"
  | .outOfFuel => "out-of-fuel"

/-- queue entries of the circuit-level command. -/
inductive QGate where
  | opq (id : Nat)
  | mcx (cs : List Nat) (t : Nat)
  | basic (g : CGate)
  | err (e : XRes)

def qToks : QGate → List String
  | .opq id => [s!"g{id}"]
  | .mcx cs t => [s!"mcx {cs} {t}"]
  | .basic g => gateToks g
  | .err e => ["!" ++ showRes e]

def nextCGate : P CGate := do
  let k ← nextNat
  match k with
  | 0 => pure (.x (← nextNat))
  | 1 => do let c ← nextNat; let t ← nextNat; pure (.cnot c t)
  | 2 => do let c0 ← nextNat; let c1 ← nextNat; let t ← nextNat; pure (.toffoli c0 c1 t)
  | _ => do let c0 ← nextNat; let c1 ← nextNat; let t ← nextNat; pure (.rtof c0 c1 t)

/-- a label stored as an array of `n` bits (so closures stay shallow). -/
def ofArr (arr : Array Bool) : Lab := fun q => arr.getD q false

def toArr (n : Nat) (b : Lab) : Array Bool := (Array.range n).map b

/-- `runS` one gate at a time, materialising the label after each gate. -/
def runSArr (n : Nat) (gs : List CGate) (s : Bool × Array Bool) : Bool × Array Bool :=
  gs.foldl (fun s g => let r := runS [g] (s.1, ofArr s.2); (r.1, toArr n r.2)) s

def nextGObj : P Dec.GObj := do
  let cls ← nextNat
  let par ← nextInt
  let ni ← nextNat
  let init ← nextNats ni
  let nc ← nextNat
  let ctl ← nextNats nc
  let nt ← nextNat
  let tgt ← nextNats nt
  let cb ← nextNat
  pure { cls := cls, par := par, init := init, ctl := ctl, tgt := tgt, cb := cb == 1 }

def showGObj (o : Dec.GObj) : String :=
  s!"{o.cls} {o.par} {o.init} {o.ctl} {o.tgt} {if o.cb then 1 else 0}"

def showDRes : Dec.Res → String
  | .ok gs => " | ".intercalate (gs.map showGObj)
  | .valueError => "ValueError"
  | .notImplemented => "NotImplementedError"
  | .outOfFuel => "out-of-fuel"

def handle : P String := do
  let cmd ← nextTok
  match cmd with
  | "DISP" =>
    let mode ← nextNat
    let ut ← nextNat
    let nf ← nextNat
    let fs ← nextNats nf
    let ncls ← nextNat
    let mut infos : Array Dec.ClassInfo := #[]
    for _ in [0:ncls] do
      let f ← nextNat
      let k ← nextNat
      let b1 ← nextInt
      let b2 ← nextInt
      let fam : Dec.Family := match f with | 0 => .plain | 1 => .xgate | 2 => .selfret | _ => .table
      infos := infos.push { fam := fam, nctl := k, fb1 := if b1 < 0 then none else some b1.toNat,
                            fb2 := if b2 < 0 then none else some b2.toNat }
    let K : Dec.Classes := fun c => infos.getD c { fam := .plain, nctl := 0 }
    let ntemp ← nextNat
    let mut temps : List (Nat × Int × List Dec.GObj) := []
    for _ in [0:ntemp] do
      let c ← nextNat
      let p ← nextInt
      let ng ← nextNat
      let mut gs : List Dec.GObj := []
      for _ in [0:ng] do
        gs := (← nextGObj) :: gs
      temps := (c, p, gs.reverse) :: temps
    let T : Dec.Templates := fun c p =>
      match temps.find? (fun e => e.1 == c && e.2.1 == p) with
      | some e => e.2.2
      | none => []
    let o ← nextGObj
    match mode with
    | 0 => pure (showDRes (Dec.decompose K T (ut == 1) fs o))
    | 1 => pure (showDRes (.ok (Dec.tableCall K T o)))
    | 2 =>
      match Dec.decompose K T (ut == 1) fs o with
      | .ok gs => pure (showDRes (Dec.decomposeAll K T (ut == 1) fs gs))
      | e => pure (showDRes e)
    | 3 => pure (showDRes (.ok (Dec.tableCallInPlace K T o)))
    | 4 => pure (showDRes (.ok (Dec.tableCallAttach K T o)))
    | _ => pure (match Dec.route K o with
        | .unchanged => "unchanged" | .table => "table" | .mcx => "mcx" | .self => "self")
  | "XDEC" =>
    let ut ← nextNat
    let m ← nextNat
    let cs ← nextNats m
    let t ← nextNat
    let nf ← nextNat
    let fs ← nextNats nf
    pure (showRes (xDecompose (ut == 1) (m + 1) cs t fs))
  | "CDEC" =>
    let ut ← nextNat
    let nf ← nextNat
    let fs ← nextNats nf
    let ng ← nextNat
    let mut queue : List QGate := []
    for _ in [0:ng] do
      let k ← nextNat
      if k == 0 then
        queue := .opq (← nextNat) :: queue
      else
        let m ← nextNat
        let cs ← nextNats m
        let t ← nextNat
        queue := .mcx cs t :: queue
    -- `gate.decompose(*free)`: an error aborts the whole call as in Python
    let dec : QGate → List QGate := fun g =>
      match g with
      | .mcx cs t =>
        match xDecompose (ut == 1) (cs.length + 1) cs t fs with
        | .ok gs => gs.map .basic
        | e => [.err e]
      | g => [g]
    let out := (decomposeCircuit dec queue.reverse).flatMap qToks
    match out.find? (fun s => s.startsWith "!") with
    | some e => pure (e.drop 1).toString
    | none => pure (" | ".intercalate out)
  | "ACT" =>
    let n ← nextNat
    let ng ← nextNat
    let mut gs : List CGate := []
    for _ in [0:ng] do
      gs := (← nextCGate) :: gs
    let gl := gs.reverse
    let m ← nextNat
    let cs ← nextNats m
    let t ← nextNat
    let na ← nextNat
    let idxs ← if na == 0 then pure (List.range (2 ^ n)) else nextNats na
    let mut bad : Option String := none
    for i in idxs do
      if bad.isNone then
        let b0 := toArr n (Lab.ofIndex n i)
        let r := runSArr n gl (false, b0)
        if r.1 then bad := some s!"FAIL sign {i}"
        else if r.2 != toArr n (mcxSpec cs t (ofArr b0)) then bad := some s!"FAIL perm {i}"
    match bad with
    | some s => pure s
    | none => pure s!"ok {idxs.length}"
  | "" => pure ""
  | c => pure s!"bad-op {c}"

partial def loop (h : IO.FS.Stream) : IO Unit := do
  let line ← h.getLine
  if line.isEmpty then return ()
  let toks := (line.splitOn " ").filter (· ≠ "") |>.map (fun s => s.trimAscii.toString) |>.filter (· ≠ "")
  let (out, _) := handle.run { toks := toks.toArray }
  IO.println out
  loop h

def main : IO Unit := do
  loop (← IO.getStdin)
