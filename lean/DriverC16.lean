/-
  Line-protocol driver for the time-evolution model (QV/Model/Evolution.lean), property C16.
  One case per input line, one canonical answer line.  `lake env lean --run DriverC16.lean`.

  ops:
    TERMS c0re c0im c1re c1im nt (ham k q1..qk <4^k Gaussian integers, row major>)*
        -> per group " | "-separated:  member ids ; group qubit set (ascending) ; targets of the merged term ; merged matrix
           then " # " and the Trotter queue, per gate " | "-separated:  targets ; matrix of the merged term
    ADIAB  (same arguments; the terms tagged 0 are `h0.terms`, those tagged 1 `h1.terms`, ids are positions in the line)
        -> the same for `SymbolicAdiabaticHamiltonian.groups` / `.circuit(dt, t)`
    NSTEPS bitsT bitsT0 bitsDt      (IEEE double bit patterns as decimal UInt64)
        -> nstepsF ; nstepsLegacyF ; number of callback records of `execute` with that many steps
    TIMES kind bitsT0 bitsDt n cb   (kind 0 = exp / Trotter, 1 = rk4, 2 = rk45; cb 0/1)
        -> bits of the solver clock after `n` steps ; bits of the times at which the Hamiltonian is
           read during `execute` (`readLog`), in order of use
-/
import QV.Core.GI
import QV.Model.Sim
import QV.Model.Fusion
import QV.Model.Evolution
open QV QV.Evo

structure Rd where
  toks : Array String
  pos : Nat := 0

abbrev P := StateM Rd

def nextTok : P String := do
  let s ← get
  set { s with pos := s.pos + 1 }
  pure (s.toks.getD s.pos "")

def nextInt : P Int := do
  let t ← nextTok
  pure (t.toInt?.getD 0)

def nextNat : P Nat := do
  let t ← nextInt
  pure t.toNat

def nextNats (k : Nat) : P (List Nat) := do
  let mut out := []
  for _ in [0:k] do
    out := (← nextNat) :: out
  pure out.reverse

def nextGI : P GI := do
  let a ← nextInt
  let b ← nextInt
  pure ⟨a, b⟩

def nextGIs (k : Nat) : P (Array GI) := do
  let mut out := Array.mkEmpty k
  for _ in [0:k] do
    out := out.push (← nextGI)
  pure out

def showGIs (a : Array GI) : String :=
  " ".intercalate (a.toList.map GI.toStr)

def showNats (l : List Nat) : String := " ".intercalate (l.map toString)

/-- materialise a local matrix on `k` qubits. -/
def matArr (k : Nat) (m : Nat → Nat → GI) : Array GI :=
  let d := 2 ^ k
  Array.ofFn (n := d * d) fun i => m (i.val / d) (i.val % d)

def ofArr (k : Nat) (a : Array GI) : Nat → Nat → GI :=
  let d := 2 ^ k
  fun i j => a.getD (i * d + j) 0

/-- `to_term` with every intermediate merged matrix materialised (same operations as
`TGroup.toTerm`; keeps closures shallow). -/
def toTermT (c : Nat → GI) (g : TGroup GI) : HTerm GI :=
  match g.members with
  | [] => { mat := fun _ _ => 0, qs := [] }
  | p :: rest =>
    let mater (t : HTerm GI) : HTerm GI := { t with mat := ofArr t.qs.length (matArr t.qs.length t.mat) }
    rest.foldl (fun m t => mater (m.merge (t.scale (c t.ham)))) (mater (p.scale (c p.ham)))

def sortNats (l : List Nat) : List Nat := sortS l

def nextFloat : P Float := do
  let t ← nextTok
  pure (Float.ofBits (UInt64.ofNat (t.toNat?.getD 0)))

def handle : P String := do
  let cmd ← nextTok
  match cmd with
  | "TERMS" | "ADIAB" =>
    let c0 ← nextGI
    let c1 ← nextGI
    let nt ← nextNat
    let mut ts : List (HTerm GI) := []
    for i in [0:nt] do
      let ham ← nextNat
      let k ← nextNat
      let qs ← nextNats k
      let m ← nextGIs (4 ^ k)
      ts := { mat := ofArr k m, qs := qs, ham := ham, id := i } :: ts
    let terms := ts.reverse
    let c : Nat → GI := fun h => if h == 0 then c0 else c1
    let groups := if cmd == "ADIAB" then
        adiabaticGroups (terms.filter (·.ham == 0)) (terms.filter (·.ham == 1))
      else fromTerms terms
    let gparts := groups.map fun g =>
      let t := toTermT c g
      s!"{showNats (g.members.map (·.id))} ; {showNats (sortNats g.qubits)} ; {showNats t.qs} ; {showGIs (matArr t.qs.length t.mat)}"
    -- the queue through the model's `trotterGates`, with `E` handing back the merged matrix
    -- (materialised per group to keep evaluation cheap)
    let mgroups : List (TGroup GI) := groups.map fun g =>
      let t := toTermT c g
      { members := [{ t with ham := 2 }], qubits := g.qubits }
    let queue := trotterGates (fun _ t => t.mat) (fun _ => (1 : GI)) (0 : GI) mgroups
    let qparts := queue.map fun g =>
      s!"{showNats g.targets} ; {showGIs (matArr g.targets.length g.mat)}"
    pure (" | ".intercalate gparts ++ " # " ++ " | ".intercalate qparts)
  | "NSTEPS" =>
    let tf ← nextFloat
    let t0 ← nextFloat
    let dt ← nextFloat
    let n := nstepsF tf t0 dt
    let (_, hist) := execute (S := Nat) (fun s => s + 1) id true n 0
    pure s!"{n} ; {nstepsLegacyF tf t0 dt} ; {hist.length}"
  | "TIMES" =>
    let kind ← nextNat
    let t0 ← nextFloat
    let dt ← nextFloat
    let n ← nextNat
    let cb ← nextNat
    let k : SolverKind := if kind == 0 then .exp else if kind == 1 then .rk4 else .rk45
    let (t, log) := readLog (fun m => Float.ofNat m) k (cb != 0) n t0 dt
    pure s!"{t.toBits.toNat} ; {showNats (log.map fun x => x.toBits.toNat)}"
  | "" => pure ""
  | c => pure s!"bad-op {c}"

partial def loop (h : IO.FS.Stream) : IO Unit := do
  let line ← h.getLine
  if line.isEmpty then return ()
  let toks := (line.splitOn " ").filter (· ≠ "") |>.map (fun s => s.trimAscii.toString) |>.filter (· ≠ "")
  let (out, _) := handle.run { toks := toks.toArray }
  IO.println out
  loop h

def main : IO Unit := do
  loop (← IO.getStdin)
