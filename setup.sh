#!/bin/sh
# Build the Lean framework from files on disk only (offline).  Generated tables
# (lean/QV/Gen) are produced by the checks themselves from /repo's current source.
set -e
DIR="$(cd "$(dirname "$0")" && pwd)"
cd "$DIR/lean"
mkdir -p QV/Gen
lake build QV
