#!/bin/sh
# Build the Lean framework from files on disk only (offline): the core library, every
# property module registered in tools/theorems.json and what the model drivers import.
# Generated tables (lean/QV/Gen) are produced by the checks themselves from /repo's
# current source.
set -e
DIR="$(cd "$(dirname "$0")" && pwd)"
cd "$DIR/lean"
mkdir -p QV/Gen
MODS=$(python3 - <<'EOF'
import json, re, pathlib
root = pathlib.Path(".")
mods = set(["QV"])
data = json.loads((root / ".." / "tools" / "theorems.json").read_text())
claimed = set(json.loads((root / ".." / "tools" / "checks.json").read_text()))
for k, v in data.items():
    if k in claimed:
        mods.update(v["modules"])
for drv in root.glob("Driver*.lean"):
    tag = drv.stem[len("Driver"):]
    if tag == "" or tag in claimed:
        mods.update(re.findall(r"^import\s+(QV[\w.]*)", drv.read_text(), re.M))
mods = {m for m in mods if (root / (m.replace(".", "/") + ".lean")).exists() and not m.startswith("QV.Gen")}
print(" ".join(sorted(mods)))
EOF
)
LEAN_NUM_THREADS=${LEAN_NUM_THREADS:-16} lake build $MODS
